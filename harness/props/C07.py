"""C07 plugin: blob permission signatures (see CONVENTIONS.md for the plugin interface).

Case lines (every string argument hex, "-" = empty; integers decimal):
  sign <loc> <tok> <expUnix> <ttlNs> <key>
  verify <loc> <tok> <ttlNs> <key> <nominalNowNs>
  near <loc> <tok> <offSec> <ttlNs> <key> <vtok> <vttlNs> <vkey> <suffix> <nominalNowNs>
  manifest <text> <tok> <expUnix> <ttlNs> <key>
  get <loc> <tok> <signing> <ttlNs> <key> <absent|p<bodyhex>> <nominalNowNs>
  getnow <loc> <tok> <ttlNs> <key> <absent|p<bodyhex>> <nominalNowNs>
  geturl <rawpath> <none|authheader> <signing> <ttlNs> <key> <absent|p<bodyhex>> <nominalNowNs>
  kcsign / kcverify: as sign / verify, run through sdk/go/keepclient
  getremote <loc> <tok> <configured remote ids|-> <ttlNs> <key> <absent|p<bodyhex> at the remote> <nominalNowNs> [<mode>]
      mode: what the stub remote Keep service does with every request: ok (serve what it holds) | a status
      code (403, 404, 408, 429, 5xx) | drop (close the connection) | short (200 with a 1-byte body)
  put <body> <tok> <tok2> <signing> <ttlNs> <key> <nominalNowNs>

Time: the Go code reads the real clock. `verify`/`get` cases only carry expiry fields that are
decades away from it (<= 0x5fffffff = 2021, or >= 0x80000000 = 2038), and the model is given the
nominal clock 0x70000000 (2029) which lies on the same side of every such expiry; `near`/`put`
cases sign relative to the real clock with margins of >= 5 s (past) / >= 60 s (future) and only
verdicts are compared. "At now" (`near` with offset 0, `getnow`): the expiry is the whole second
that has already begun, i.e. the expiry instant lies strictly before every later clock reading;
the drivers report the clock before and after (ns) and the oracle judges against that window.
"""
import hashlib
import hmac
import re
from urllib.parse import unquote_to_bytes

ID = "C07"
RULE = ("valid signed locators (hints before/after the signature, tokens with @ + /, keys incl. empty, >64 bytes and "
        "non-ASCII, TTLs incl. 0, negative and fractional, expiry far past / far future / real clock +-offsets), every "
        "single-character substitution of the signature and expiry fields, sampled (thorough: all) single-character "
        "substitutions/deletions/insertions of the whole locator, single-field perturbations (token, key, TTL, hash, "
        "hint order, removed/duplicated signature), keepstore GET/PUT with signing on and off, manifests from a small "
        "grammar plus malformed byte strings; non-trivial = the input contains a +A hint or a block token; distinct = "
        "distinct case line")
ASSUMPTIONS = [
    "the real clock lies in [0x60000000, 0x80000000) (2021-2038); expiries in verify/get cases lie outside it",
    "near/put cases: the process is not stalled for >= 60 s between signing and verifying",
    "at-now cases (near with offset 0, getnow): the expiry is the whole second that had already begun when the case "
    "started, so on the unchanged code the verdict is 'expired'/401 whenever the verification runs (the wall clock is "
    "assumed not to step backwards); the driver repeats an attempt that did not finish within that second only so that "
    "a changed comparison is observed inside it",
    "|TTL| < 2*10^18 ns (int64(d.Seconds()) is exact truncation below about 10^15 ns; the two larger TTLs used for PUT, "
    "15 and 60 years, are whole seconds, for which it is exact as well)",
    "keepstore driver: Authorization header is 'Bearer <token>' with a whitespace-free token; GET paths contain no '/'; "
    "no RemoteClusters configured (remote proxy answers 401 without token, else 400)",
]
TRUSTED = ["executable HMAC-SHA1 in Lean (ArvVerif/Base/SHA1.lean), compared with Go crypto/hmac through every case",
           "blob.rb is not executed (no Ruby); its algorithm is transcribed in Lean (Ref.*) and, independently, in the "
           "Python oracle of this plugin"]

DRIVERS = {
    "sdk": {"kind": "gotest", "pkg": "sdk/go/arvados", "test": "TestVerifC07", "min_chunk": 300},
    "kc": {"kind": "gotest", "pkg": "sdk/go/keepclient", "test": "TestVerifC07", "min_chunk": 300},
    "ks": {"kind": "gotest", "pkg": "services/keepstore", "test": "TestVerifC07", "min_chunk": 300, "shards": 4},
}

PAST_MAX = 0x5fffffff
FUT_MIN = 0x80000000
NOMINAL_NOW_NS = 0x70000000 * 10 ** 9 + 500000000
NOMINAL_NOW_S = 0x70000000
STORED = [b"foo", b"", b"verif-c07 block", b"bar\n"]      # blocks the keepstore driver stores up front
STORED_BY_HASH = {hashlib.md5(b).hexdigest().encode(): b for b in STORED}
REMOTE = [b"remote-only block", b"foo", b"another remote block\n"]   # blocks the stub remote Keep server holds
REMOTE_BY_HASH = {hashlib.md5(b).hexdigest().encode(): b for b in REMOTE}
DAY = 86400 * 10 ** 9


def H(b):
    return b.hex() if b else "-"


def U(s):
    return b"" if s == "-" else bytes.fromhex(s)


def channel(case):
    if case.startswith(("kcsign ", "kcverify ")):
        return "kc"
    return "ks" if case.startswith(("get ", "put ", "getnow ", "geturl ", "getremote ")) else "sdk"


# ----------------------------------------------------------------------------- reference (property text / blob.rb)

def ttl_secs(ttl_ns):
    return (abs(ttl_ns) // 10 ** 9) * (1 if ttl_ns >= 0 else -1)


def hexint(v):
    return (b"-" if v < 0 else b"") + (b"%x" % abs(v))


def ref_sig(key, blob_hash, tok, exphex, ttl_ns):
    """blob.rb generate_signature: HMAC-SHA1 hexdigest of [hash, token, timestamp, ttl].join('@')"""
    msg = b"@".join([blob_hash, tok, exphex, hexint(ttl_secs(ttl_ns))])
    return hmac.new(key, msg, hashlib.sha1).hexdigest().encode()


def ref_sign(loc, tok, exp, ttl_ns, key):
    """blob.rb sign_locator; zero-padding to 8 digits as the Go code does (equal for exp >= 2^28)"""
    exphex = b"%08x" % exp
    return loc + b"+A" + ref_sig(key, loc.split(b"+")[0], tok, exphex, ttl_ns) + b"@" + exphex


HINT = rb"\+[B-Z][A-Za-z0-9@_-]*"
STRICT = re.compile(rb"([0-9A-Fa-f]{32})(\+[0-9]+)?((?:" + HINT + rb")*)\+A([0-9A-Fa-f]{40})@([0-9A-Fa-f]{8})((?:" + HINT + rb")*)")
STRICT_UNSIGNED = re.compile(rb"[0-9A-Fa-f]{32}(\+[0-9]+)?(?:" + HINT + rb")*")
AFIELD = re.compile(rb"A([0-9A-Fa-f]{40})@([0-9A-Fa-f]{8})")


def ref_candidates(loc, tok, ttl_ns, key):
    """lenient: every +-separated field that looks like a signature hint -> (hmac matches, expiry)"""
    fs = loc.split(b"+")
    out = []
    for f in fs[1:]:
        m = AFIELD.fullmatch(f)
        if m:
            out.append((m.group(1) == ref_sig(key, fs[0], tok, m.group(2), ttl_ns), int(m.group(2), 16)))
    return out


def ref_strict(loc, tok, ttl_ns, key):
    """strict: the documented locator grammar -> None | (hmac matches, expiry)"""
    m = STRICT.fullmatch(loc)
    if not m:
        return None
    return (m.group(4) == ref_sig(key, m.group(1), tok, m.group(5), ttl_ns), int(m.group(5), 16))


def side_by_margin(now_s, margin):
    """classify an expiry against a clock in whole seconds; None = too close to judge"""
    def side(e):
        if abs(e - now_s) < margin:
            return None
        return "future" if e >= now_s else "past"
    return side


def side_by_window(t0_ns, t1_ns):
    """classify an expiry against the interval [t0, t1] (ns) in which the verification ran:
    past = the expiry instant lay before the verification started, future = it still lay ahead
    when the verification had finished"""
    def side(e):
        if e * 10 ** 9 < t0_ns:
            return "past"
        if e * 10 ** 9 > t1_ns:
            return "future"
        return None
    return side


def judge_verdict(verdict, loc, tok, ttl_ns, key, side):
    """Property text on an implementation verdict. side(e) says whether expiry e (whole seconds)
    had passed ('past'), had not ('future'), or cannot be judged (None) when the code ran."""
    cands = ref_candidates(loc, tok, ttl_ns, key)
    strict = ref_strict(loc, tok, ttl_ns, key)
    for _, e in cands:
        if side(e) is None:
            return None     # too close to the clock to judge (never generated)
    if verdict == "ok":
        if not any(good and side(e) == "future" for good, e in cands):
            return "a locator verifies although it carries no unexpired HMAC-SHA1(hash@token@expiry@ttl) signature for this token/TTL/key"
    elif verdict == "expired":
        if not any(side(e) == "past" for _, e in cands):
            return "reported as expired although no signature hint with a past expiry is present"
    elif verdict not in ("invalid", "missing"):
        return "unexpected verdict " + verdict[:100]
    if strict is not None:
        good, e = strict
        if side(e) == "past" and verdict != "expired":
            return "a well-formed signature whose expiry has passed is not reported as expired"
        if side(e) == "future" and good and verdict != "ok":
            return "a validly signed, unexpired locator does not verify"
        if side(e) == "future" and not good and verdict not in ("invalid", "missing"):
            return "a locator with a wrong signature is not rejected as invalid/missing"
    return None


WS = b"\t\n\x0c\r "
BLK = re.compile(rb"[0-9a-f]{32}")


def judge_manifest(text, tok, exp, ttl_ns, key, out):
    a = re.split(rb"([\t\n\x0c\r ]+)", text)
    b = re.split(rb"([\t\n\x0c\r ]+)", out)
    if len(a) != len(b):
        return "SignManifest changed the token/whitespace structure"
    for i, (x, y) in enumerate(zip(a, b)):
        if i % 2 == 1:
            if x != y:
                return "SignManifest changed whitespace"
            continue
        if not BLK.match(x):
            if x != y:
                return "SignManifest changed a token that is not a block locator"
            continue
        fx = x.split(b"+")
        kept = [fx[0]] + [f for f in fx[1:] if not f.startswith(b"A")]
        if not key or not tok:
            if y != b"+".join(kept):
                return "SignManifest without key/token did more than drop signatures"
            continue
        fy = y.split(b"+")
        if fy[:-1] != kept:
            return "SignManifest changed the hash or a non-signature hint of a block locator"
        want = b"A" + ref_sig(key, fx[0], tok, b"%08x" % exp, ttl_ns) + b"@" + (b"%08x" % exp)
        if fy[-1] != want:
            return "SignManifest did not put a fresh HMAC-SHA1 signature on a block locator"
    return None


def oracle(case, impl):
    """Written from the property text; looks at the case input and the implementation output only."""
    f = case.split(" ")
    if impl.startswith(("panic", "CRASH", "bad-op", "other-error", "wrong-body")):
        return "driver could not observe a result: " + impl[:200]
    op = f[0]
    if op == "kcverify":       # keepclient re-exports: same functions, same error values, same regexp
        if not impl.endswith(" same"):
            return "keepclient's SignedLocatorRe / error values are not the arvados ones"
        op, impl = "verify", impl[:-5]
    if op == "kcsign":
        op = "sign"
    if op == "getremote":
        # +R without +A: data may only come from the remote cluster, never from a local volume
        loc = U(f[1])
        mode = f[8] if len(f) > 8 else "ok"
        left, _, seen = impl.partition(" | ")
        g = left.split(" ")
        if g[0] == "200" and b"+A" not in loc:
            body = U(g[1]) if len(g) > 1 else b""
            if hashlib.md5(body).hexdigest().encode() != loc[:32]:
                return "GET returned data that does not belong to the requested hash"
            if seen == "-" and body != b"":
                return "keepstore returned block data for a locator without a local signature without asking the remote cluster"
            served = REMOTE_BY_HASH.get(loc[:32]) if mode == "ok" else None    # what the remote actually sent
            if seen != "-" and served != body:
                return ("keepstore returned block data for a locator without a local signature although the remote "
                        "cluster did not deliver it (remote: %s)" % (mode if mode != "ok" else "block not held"))
        return None
    if op == "geturl":
        hdr, signing, ttl, key = (None if f[2] == "none" else U(f[2])), f[3] == "1", int(f[4]), U(f[5])
        g = impl.split(" ")
        if g[0] == "200" and signing:
            # the request as a client means it: percent-decoded path, token after the auth scheme
            try:
                path = unquote_to_bytes(U(f[1]))
            except Exception:
                return "data returned for an undecodable URL"
            m = re.match(rb"(?:OAuth2|Bearer)[\t\n\x0c\r ]+([^\n]*)", hdr or b"")
            tok = m.group(1) if m else b""
            body = U(g[1]) if len(g) > 1 else b""
            if hashlib.md5(body).hexdigest().encode() != path[1:33]:
                return "GET returned data that does not belong to the requested hash"
            why = judge_verdict("ok", path[1:], tok, ttl, key, side_by_margin(NOMINAL_NOW_S, 0x10000000))
            if why:
                return "keepstore returned block data with blob signing on: " + why
        return None
    if op == "sign":
        loc, tok, exp, ttl, key = U(f[1]), U(f[2]), int(f[3]), int(f[4]), U(f[5])
        got = U(impl)
        if not key or not tok:
            return None if got == loc else "SignLocator without key/token changed the locator"
        if not got.startswith(loc + b"+A"):
            return "signed locator is not the locator followed by +A"
        m = re.fullmatch(rb"([0-9a-f]{40})@(-?[0-9a-f]+)", got[len(loc) + 2:])
        if not m:
            return "signature hint is not <40 lowercase hex>@<hex expiry>"
        if int(m.group(2), 16) != exp:
            return "expiry field does not encode the requested expiry"
        if exp >= 1 << 28 and m.group(2) != b"%x" % exp:
            return "expiry field differs from the API server's timestamp.to_s(16)"
        if m.group(1) != ref_sig(key, loc.split(b"+")[0], tok, m.group(2), ttl):
            return "signature is not HMAC-SHA1(key, hash@token@expiry-hex@ttl-hex)"
        return None
    if op == "verify":
        return judge_verdict(impl, U(f[1]), U(f[2]), int(f[3]), U(f[4]), side_by_margin(NOMINAL_NOW_S, 0x10000000))
    if op == "near":
        g = impl.split(" ")
        if len(g) != 6:
            return "malformed near output"
        loc, tok, off, ttl, key = U(f[1]), U(f[2]), int(f[3]), int(f[4]), U(f[5])
        signed, exp, now, t0, t1 = U(g[1]), int(g[2]), int(g[3]), int(g[4]), int(g[5])
        if exp != now + off or t0 // 10 ** 9 != now or t1 < t0:
            return "driver did not apply the offset / clock went backwards"
        want = (ref_sign(loc, tok, exp, ttl, key) if key and tok else loc) + U(f[9])
        if signed != want:
            return "SignLocator output is not loc+A<HMAC-SHA1(hash@token@expiry@ttl)>@<expiry>"
        # the expiry instant against the interval in which VerifySignature ran
        return judge_verdict(g[0], signed, U(f[6]), int(f[7]), U(f[8]), side_by_window(t0, t1))
    if op == "getnow":
        loc, tok, ttl, key = U(f[1]), U(f[2]), int(f[3]), U(f[4])
        g = impl.split(" ")
        if len(g) < 4:
            return "malformed getnow output"
        exp, t0, t1 = int(g[-3]), int(g[-2]), int(g[-1])
        if exp * 10 ** 9 < t0:       # always: the expiry is the second that had already begun
            if g[0] == "200":
                return "keepstore returned block data for a locator whose expiry time had passed when it was presented"
            if g[0] != "401":
                return "keepstore answered %s, not 401, to a well-formed signature whose expiry has passed" % g[0]
        return None
    if op == "manifest":
        return judge_manifest(U(f[1]), U(f[2]), int(f[3]), int(f[4]), U(f[5]), U(impl))
    if op == "get":
        loc, tok, signing, ttl, key = U(f[1]), U(f[2]), f[3] == "1", int(f[4]), U(f[5])
        g = impl.split(" ")
        if g[0] == "200":
            body = U(g[1]) if len(g) > 1 else b""
            if hashlib.md5(body).hexdigest().encode() != loc[:32]:
                return "GET returned data that does not belong to the requested hash"
            if signing:
                why = judge_verdict("ok", loc, tok, ttl, key, side_by_margin(NOMINAL_NOW_S, 0x10000000))
                if why:
                    return "keepstore returned block data with blob signing on: " + why
            return None
        routed = re.fullmatch(rb"[0-9a-f]{32}(\+[^/]+)?", loc, re.S) is not None
        remote = b"+R" in loc and b"+A" not in loc
        if signing and routed and not remote:
            st = ref_strict(loc, tok, ttl, key)
            if st and st[0] and st[1] >= FUT_MIN:
                if f[6] != "absent":
                    return "keepstore refused (%s) a stored block requested with a valid unexpired signature" % g[0]
            elif st and st[1] <= PAST_MAX:
                if g[0] != "401":
                    return "keepstore answered %s, not 401, to a well-formed signature whose expiry has passed" % g[0]
            elif g[0] != "403":
                return "keepstore answered %s, not 403, to a missing/invalid signature" % g[0]
        return None
    if op == "put":
        body, tok, tok2, signing, ttl, key = U(f[1]), U(f[2]), U(f[3]), f[4] == "1", int(f[5]), U(f[6])
        g = impl.split(" ")
        if len(g) != 6 or g[0] != "200":
            return "PUT failed: " + impl[:100]
        loc, s1, s2, t0, t1 = U(g[1]), g[2], g[3], int(g[4]), int(g[5])
        base = hashlib.md5(body).hexdigest().encode() + b"+%d" % len(body)
        if not key or not tok:
            if loc != base:
                return "PUT reply without key/token is not hash+size"
        else:
            m = re.fullmatch(re.escape(base) + rb"\+A([0-9a-f]{40})@([0-9a-f]{8})", loc)
            if not m:
                return "PUT reply is not hash+size+A<sig>@<expiry>"
            e = int(m.group(2), 16)
            lo, hi = t0 + ttl // 10 ** 9, t1 + -(-ttl // 10 ** 9)
            if not lo <= e <= hi:
                return "PUT reply expiry is not now+TTL"
            if m.group(1) != ref_sig(key, base[:32], tok, m.group(2), ttl):
                return "PUT reply signature is not HMAC-SHA1(key, hash@token@expiry@ttl)"
            if signing and ttl >= 60 * 10 ** 9 and s1 != "200":
                return "the locator keepstore just signed is refused for the same token"
            if signing and ttl <= -5 * 10 ** 9 and s1 != "401":
                return "a locator signed with a past expiry is not reported as expired"
        if signing and tok2 != tok and s2 == "200":
            return "keepstore returned block data to a token the locator was not signed for"
        return None
    return "unknown op"


def compare(case, impl, model):
    op = case.split(" ", 1)[0]
    if op == "near":
        return impl.split(" ")[0] == model
    if op == "getnow":
        return " ".join(impl.split(" ")[:-3]) == model
    if op == "put":
        g = impl.split(" ")
        if len(g) != 6:
            return impl == model
        signed = "1" if b"+A" in U(g[1]) else "0"
        return f"{g[0]} {signed} {g[2]} {g[3]}" == model
    return impl == model


def nontrivial_key(case, impl):
    f = case.split(" ")
    if f[0] in ("put", "getnow", "getremote"):
        return case
    if f[0] == "geturl":
        return case if b"A" in U(f[1]) else None
    if f[0] == "kcsign":
        return case if U(f[2]) and U(f[5]) else None
    arg = U(f[1])
    if f[0] == "manifest":
        return case if any(BLK.match(t) for t in re.split(rb"[\t\n\x0c\r ]+", arg)) else None
    if f[0] in ("sign", "near"):
        return case if U(f[2]) and U(f[5]) else None
    return case if b"+A" in arg else None


# ----------------------------------------------------------------------------- generators

LHEX = "0123456789abcdef"
TOKCH = "abcdefghijklmnopqrstuvwxyzABCDEFGHIJKLMNOPQRSTUVWXYZ0123456789"
HINTCH = "ABCXYZabcxyz0189@_-"


def g_hash(rng, stored=0.0):
    if rng.random() < stored:
        return rng.choice(list(STORED_BY_HASH))
    return ("%032x" % rng.getrandbits(128)).encode()


def g_token(rng):
    r = rng.random()
    if r < 0.25:
        return "".join(rng.choice(TOKCH) for _ in range(rng.choice([1, 8, 40, 50]))).encode()
    if r < 0.45:
        return ("v2/zzzzz-gj3su-" + "".join(rng.choice(LHEX) for _ in range(15)) + "/" +
                "".join(rng.choice(TOKCH) for _ in range(40))).encode()
    if r < 0.9:
        n = rng.choice([1, 2, 5, 12, 30])
        return "".join(rng.choice(TOKCH + "@@++//@+") for _ in range(n)).encode()
    if r < 0.95:
        return bytes(rng.choice([0x80, 0xc3, 0xa9, 0xff, 0x41, 0x40, 0x2b, 0x00, 0x7f]) for _ in range(rng.randint(1, 6)))
    return b"@" * rng.randint(1, 3)


def g_key(rng):
    r = rng.random()
    if r < 0.6:
        return "".join(rng.choice(TOKCH) for _ in range(rng.choice([1, 16, 50, 64]))).encode()
    if r < 0.8:
        return "".join(rng.choice(TOKCH + "@+ ") for _ in range(rng.choice([65, 100, 128, 200]))).encode()
    return bytes(rng.randrange(256) for _ in range(rng.choice([1, 20, 64, 65])))


def g_ttl(rng):
    r = rng.random()
    if r < 0.45:
        return 1209600 * 10 ** 9
    if r < 0.75:
        return rng.choice([0, 1, 15, 16, 255, 256, 3600, 86400, 10 ** 6]) * 10 ** 9
    if r < 0.88:
        return rng.randrange(0, 10 ** 6) * 10 ** 9 + rng.choice([1, 499999999, 500000000, 999999999])
    return -rng.choice([1, 999999999, 10 ** 9, 1500000000, 5 * 10 ** 9, 255 * 10 ** 9, 10 ** 14])


def g_exp(rng, which=None):
    which = which or rng.choice(["past", "future", "future"])
    if which == "past":
        return rng.choice([0, 1, 0x0fffffff, 0x10000000, PAST_MAX, rng.randrange(0, PAST_MAX + 1), rng.randrange(0x40000000, PAST_MAX + 1)])
    return rng.choice([FUT_MIN, 0xffffffff, rng.randrange(FUT_MIN, 1 << 32), rng.randrange(FUT_MIN, 1 << 32)])


def g_hint(rng):
    r = rng.random()
    if r < 0.3:
        return b"K" + "".join(rng.choice("abcz0189") for _ in range(5)).encode()
    if r < 0.45:
        return b"K@" + "".join(rng.choice("abcz0189") for _ in range(rng.choice([5, 27]))).encode()
    if r < 0.6:
        return b"R" + "".join(rng.choice("abcz0189") for _ in range(5)).encode() + b"-" + "".join(rng.choice(LHEX) for _ in range(40)).encode() + b"@" + b"%08x" % g_exp(rng)
    return rng.choice("BCDEFGHIJKLMNOPQRSTUVWXYZ").encode() + "".join(rng.choice(HINTCH) for _ in range(rng.choice([0, 1, 3, 10]))).encode()


def g_hints(rng, maxn=3):
    return [g_hint(rng) for _ in range(rng.choice([0, 0, 1, 1, 2, maxn]))]


def g_unsigned(rng, stored=0.0):
    """well-formed unsigned locator: hash[+size][+hints]"""
    h = g_hash(rng, stored)
    if rng.random() < 0.15:
        h = h.upper() if rng.random() < 0.5 else bytes(c - 32 if 97 <= c <= 102 and rng.random() < 0.5 else c for c in h)
    parts = [h]
    if rng.random() < 0.75:
        parts.append(b"%d" % rng.choice([0, 3, rng.randrange(1 << 26), 67108864, 10 ** 12]))
    parts += g_hints(rng)
    return b"+".join(parts)


def hint_suffix(rng):
    return b"".join(b"+" + h for h in g_hints(rng))


def safe_for_clock(loc):
    """every 8-hex-digit field after an '@' lies decades away from the real/nominal clock"""
    for m in re.finditer(rb"@([0-9A-Fa-f]{8})(?![0-9A-Fa-f])", loc):
        if PAST_MAX < int(m.group(1), 16) < FUT_MIN:
            return False
    return True


class Base:
    """a valid signed locator and the parameters it verifies with"""

    def __init__(self, rng, stored=0.0, side=None):
        self.unsigned = g_unsigned(rng, stored)
        self.tok = g_token(rng)
        self.key = g_key(rng)
        self.ttl = g_ttl(rng)
        self.exp = g_exp(rng, side)
        self.suffix = hint_suffix(rng)
        self.signed = ref_sign(self.unsigned, self.tok, self.exp, self.ttl, self.key) + self.suffix
        self.sig_at = len(self.unsigned) + 2          # first signature character
        self.exp_at = self.sig_at + 41                # first expiry character


def verify_line(loc, tok, ttl, key):
    return f"verify {H(loc)} {H(tok)} {ttl} {H(key)} {NOMINAL_NOW_NS}"


SUBST = b"0123456789abcdefABCDEFg+@ _-GZ\n\x00\xff"


def char_perturbations(loc, positions, rng, per_pos):
    out = []
    for i in positions:
        c = loc[i:i + 1]
        alts = []
        if c.isalpha():
            alts.append(c.swapcase())
        pool = [bytes([x]) for x in SUBST if bytes([x]) != c and bytes([x]) not in alts]
        alts += rng.sample(pool, min(per_pos, len(pool))) if per_pos < len(pool) else pool
        for a in alts:
            out.append(loc[:i] + a + loc[i + 1:])
    return out


def token_variants(t, rng):
    """single-field perturbations of a token seen as '/'-separated parts (v2/uuid/secret and the
    like): one part changed in one character, one part replaced, leading parts dropped, the token
    wrapped as the last part of a longer one"""
    out = set()
    parts = t.split(b"/")
    if len(parts) > 1:
        for i, part in enumerate(parts):
            if part:
                j = rng.randrange(len(part))
                c = b"0" if part[j:j + 1] != b"0" else b"1"
                out.add(b"/".join(parts[:i] + [part[:j] + c + part[j + 1:]] + parts[i + 1:]))
            out.add(b"/".join(parts[:i] + ["".join(rng.choice(TOKCH) for _ in range(max(1, len(part)))).encode()] + parts[i + 1:]))
        for k in range(1, len(parts)):
            out.add(b"/".join(parts[k:]))
        out.add(b"/".join(parts[:-1]))
    out.add(b"v2/zzzzz-gj3su-" + "".join(rng.choice(LHEX) for _ in range(15)).encode() + b"/" + t)
    out.add(b"x/" + t)
    out.discard(t)
    return sorted(out)


def field_perturbations(b, rng):
    """(locator, token, ttl, key) tuples, each differing from the valid base in one field"""
    L, t, ttl, k = b.signed, b.tok, b.ttl, b.key
    out = []
    # token
    for t2 in sorted({t[:-1], t + b"x", t + b"@", b"", t.swapcase(), b"x" + t, t[1:] + t[:1], t.replace(b"@", b"+"), g_token(rng)}) + token_variants(t, rng):
        if t2 != t:
            out.append((L, t2, ttl, k))
    # key
    for k2 in sorted({k[:-1], k + b"\x00", k + b"x", b"", k.swapcase(), g_key(rng)}):
        if k2 != k:
            out.append((L, t, ttl, k2))
    # TTL: one second more/less, sign flipped, sub-second change (same whole seconds => still valid)
    for d in (10 ** 9, -10 ** 9, 16 * 10 ** 9, 1, -1, 999999999 - (abs(ttl) % 10 ** 9)):
        out.append((L, t, ttl + d, k))
    out.append((L, t, -ttl, k))
    out.append((L, t, g_ttl(rng), k))
    # hash
    h = b.unsigned[:32]
    i = rng.randrange(32)
    h2 = h[:i] + (b"0" if h[i:i + 1] != b"0" else b"1") + h[i + 1:]
    out.append((h2 + L[32:], t, ttl, k))
    out.append((h.swapcase() + L[32:], t, ttl, k))
    out.append((g_hash(rng) + L[32:], t, ttl, k))
    out.append((L[:31] + L[32:], t, ttl, k))
    out.append((h + b"0" + L[32:], t, ttl, k))
    # signature hint as a whole
    sighint = L[b.sig_at - 2:b.exp_at + 8]
    nosig = L[:b.sig_at - 2] + L[b.exp_at + 8:]
    out.append((nosig, t, ttl, k))                                     # removed
    out.append((L + sighint, t, ttl, k))                               # duplicated
    out.append((L[:32] + sighint + nosig[32:], t, ttl, k))             # moved in front of size/hints
    out.append((L[:b.sig_at] + L[b.sig_at:b.sig_at + 40].upper() + L[b.sig_at + 40:], t, ttl, k))   # uppercase signature
    out.append((L[:b.exp_at] + L[b.exp_at:].upper()[:8] + L[b.exp_at + 8:], t, ttl, k))               # uppercase expiry
    out.append((L[:b.sig_at - 1] + b"a" + L[b.sig_at:], t, ttl, k))    # +a instead of +A
    out.append((L[:b.sig_at + 40] + b"+" + L[b.sig_at + 41:], t, ttl, k))
    out.append((L[:b.sig_at + 40] + L[b.sig_at + 41:], t, ttl, k))     # @ removed
    # expiry replaced by another time (signature kept)
    for e2 in (g_exp(rng, "future"), g_exp(rng, "past"), (b.exp + 1) & 0xffffffff, (b.exp - 1) & 0xffffffff):
        out.append((L[:b.exp_at] + b"%08x" % e2 + L[b.exp_at + 8:], t, ttl, k))
    # correct signature for another expiry / re-signed with everything right (must verify)
    out.append((ref_sign(b.unsigned, t, g_exp(rng, "future"), ttl, k) + b.suffix, t, ttl, k))
    # hints
    out.append((L + b"+kfoo", t, ttl, k))
    out.append((L + b"+B.x", t, ttl, k))
    out.append((L + b"+", t, ttl, k))
    out.append((L + b"+123", t, ttl, k))
    out.append((L + b"+Bok_-@9", t, ttl, k))
    out.append((L + b"\n", t, ttl, k))
    out.append((b" " + L, t, ttl, k))
    return out


def gen_verify(rng, tier):
    cases = []
    nbase = 8 if tier == "quick" else 60
    for bi in range(nbase):
        b = Base(rng, side="past" if bi % 4 == 3 else "future")
        L = b.signed
        cases.append(verify_line(L, b.tok, b.ttl, b.key))
        sigexp = list(range(b.sig_at - 2, b.exp_at + 8))
        muts = char_perturbations(L, sigexp, rng, 3 if tier == "quick" else len(SUBST))
        allpos = list(range(len(L)))
        if tier == "quick":
            pos = rng.sample(allpos, min(12, len(allpos)))
        else:
            pos = allpos
        muts += char_perturbations(L, [p for p in pos if p not in sigexp], rng, 2 if tier == "quick" else 6)
        for p in pos:
            muts.append(L[:p] + L[p + 1:])                                            # deletion
            muts.append(L[:p] + bytes([rng.choice(SUBST)]) + L[p:])                    # insertion
        for m in muts:
            if safe_for_clock(m):
                cases.append(verify_line(m, b.tok, b.ttl, b.key))
        for (l2, t2, ttl2, k2) in field_perturbations(b, rng):
            if safe_for_clock(l2):
                cases.append(verify_line(l2, t2, ttl2, k2))
    # free-standing random cases: valid ones with varied parameters, and junk
    for _ in range(300 if tier == "quick" else 20000):
        r = rng.random()
        if r < 0.6:
            b = Base(rng)
            cases.append(verify_line(b.signed, b.tok, b.ttl, b.key))
        elif r < 0.8:
            b = Base(rng)
            l2, t2, ttl2, k2 = rng.choice(field_perturbations(b, rng))
            if safe_for_clock(l2):
                cases.append(verify_line(l2, t2, ttl2, k2))
        else:
            n = rng.choice([0, 1, 31, 32, 33, 80, 90])
            junk = bytes(rng.choice(b"0123456789abcdefAB+@Az-_ \n\xff") for _ in range(n))
            if safe_for_clock(junk):
                cases.append(verify_line(junk, g_token(rng), g_ttl(rng), g_key(rng)))
    return cases


def gen_sign(rng, tier):
    cases = []
    for _ in range(250 if tier == "quick" else 10000):
        r = rng.random()
        loc = g_unsigned(rng)
        if r < 0.1:
            loc = rng.choice([b"", b"+", b"foo", loc + b"+Aabc", b"+" + loc, loc[:20]])
        tok = g_token(rng) if rng.random() < 0.9 else b""
        key = g_key(rng) if rng.random() < 0.9 else b""
        r = rng.random()
        if r < 0.7:
            exp = g_exp(rng)
        elif r < 0.8:
            exp = rng.randrange(PAST_MAX, FUT_MIN)       # sign only: no clock involved
        elif r < 0.9:
            exp = rng.choice([1 << 32, (1 << 32) + 5, 1 << 36, (1 << 40) - 1])
        else:
            exp = -rng.choice([1, 15, 16, 0xfffffff, 0x10000000, 1 << 33])
        cases.append(f"sign {H(loc)} {H(tok)} {exp} {g_ttl(rng)} {H(key)}")
    return cases


OFFSETS = [-86400 * 365 * 5, -86400, -3600, -60, -5, 0, 0, 0, 60, 3600, 86400 * 14, 86400 * 365 * 5,
           86400 * 365 * 15, 86400 * 365 * 60]      # the last two reach past 2^31 (2038) but stay below 2^32 (2106)


def gen_near(rng, tier):
    cases = []
    for _ in range(150 if tier == "quick" else 5000):
        loc, tok, key, ttl = g_unsigned(rng), g_token(rng), g_key(rng), g_ttl(rng)
        vtok, vttl, vkey = tok, ttl, key
        r = rng.random()
        if r < 0.15:
            vtok = rng.choice([tok + b"x", tok[:-1], b"", g_token(rng)])
        elif r < 0.3:
            vkey = rng.choice([key + b"x", key[:-1], b"", g_key(rng)])
        elif r < 0.45:
            vttl = ttl + rng.choice([10 ** 9, -10 ** 9, 1, 16 * 10 ** 9])
        elif r < 0.5:
            tok = b"" if rng.random() < 0.5 else tok
            key = b"" if tok else key
            vtok, vkey = tok, key
        suffix = hint_suffix(rng) if rng.random() < 0.8 else rng.choice([b"+kx", b"+", b"+12", b" "])
        cases.append(f"near {H(loc)} {H(tok)} {rng.choice(OFFSETS)} {ttl} {H(key)} {H(vtok)} {vttl} {H(vkey)} {H(suffix)} {NOMINAL_NOW_NS}")
    return cases


def g_manifest(rng):
    r = rng.random()
    if r < 0.12:
        n = rng.choice([0, 1, 5, 40, 120])
        return bytes(rng.choice(b"0123456789abcdef+A@ \n\t\r\x0c\x0b.:/\\\xff\x00\xc2\xa0\x85") for _ in range(n))
    out = b""
    if rng.random() < 0.1:
        out += rng.choice([b" ", b"\n", b"\t ", b"\r\n"])
    for _ in range(rng.randint(1, 4)):
        sep = lambda: b" " if rng.random() < 0.85 else rng.choice([b"  ", b"\t", b" \t ", b"\x0c", b"\r", b" \r"])
        hx = lambda n=32: ("%0*x" % (n, rng.getrandbits(4 * n))).encode()
        name = rng.choice([b".", b"./dir", b"./a\\040b", b"./" + hx(), b"./\xc3\xa9",
                           b"./by-md5/" + hx(), b"./" + hx() + b".d/x", b"./sha1-" + hx(40), b"./" + hx(64) + b"+K@abcde"])
        if rng.random() < 0.05:
            name = ("%032x" % rng.getrandbits(128)).encode() + rng.choice([b"", b"x", b"+x", b".txt"])   # malformed: name looks like a block
        out += name
        for _ in range(rng.randint(1, 4)):
            loc = g_unsigned(rng)
            r = rng.random()
            if r < 0.4:
                loc = ref_sign(loc, g_token(rng), g_exp(rng), g_ttl(rng), g_key(rng)) + hint_suffix(rng)
            elif r < 0.55:
                loc += rng.choice([b"+Afoo", b"+A", b"+A+A", b"+Aa@b+Bx+A1", b"+A" + b"0" * 40 + b"@00000000+Kabcde", b"+", b"++A", b"+a+A\xff"])
            elif r < 0.6:
                loc = loc[:32] + rng.choice([b"0", b"abc", b"g", b"\xff", b"\x0b"]) + loc[32:]
            out += sep() + loc
        for _ in range(rng.randint(1, 3)):
            out += sep() + b"%d:%d:" % (rng.randrange(100), rng.randrange(100)) + rng.choice([b"foo.txt", b"a\\040b", b"+A", b"x+Afoo", b"\xc3\xa9", hx(), hx() + b".fastq", hx(40), b"d/" + hx() + b"+3", b"x-" + hx() + b"+Afoo"])
        out += rng.choice([b"\n", b"\n", b"\n", b"\r\n", b"", b" \n", b"\n\n"])
    return out


def gen_manifest(rng, tier):
    cases = []
    for _ in range(200 if tier == "quick" else 8000):
        tok = g_token(rng) if rng.random() < 0.92 else b""
        key = g_key(rng) if rng.random() < 0.92 else b""
        cases.append(f"manifest {H(g_manifest(rng))} {H(tok)} {g_exp(rng)} {g_ttl(rng)} {H(key)}")
    return cases


def get_line(loc, tok, signing, ttl, key):
    body = STORED_BY_HASH.get(loc[:32])
    present = "absent" if body is None else "p" + body.hex()
    return f"get {H(loc)} {H(tok)} {1 if signing else 0} {ttl} {H(key)} {present} {NOMINAL_NOW_NS}"


def ks_ok(loc):
    return b"/" not in loc and safe_for_clock(loc)


def gen_ks(rng, tier):
    cases = []
    for _ in range(40 if tier == "quick" else 600):
        b = Base(rng, stored=0.85)
        while any(c in b.tok for c in WS) or b"\n" in b.tok or b"\x0b" in b.tok or b"\x00" in b.tok:
            b = Base(rng, stored=0.85)
        signing = rng.random() < 0.85
        cases.append(get_line(b.signed, b.tok, signing, b.ttl, b.key))
        cases.append(get_line(b.unsigned, b.tok, signing, b.ttl, b.key))
        cases.append(get_line(b.unsigned[:32], b.tok, signing, b.ttl, b.key))
        fps = field_perturbations(b, rng)
        for (l2, t2, ttl2, k2) in rng.sample(fps, 8 if tier == "quick" else len(fps)):
            if ks_ok(l2) and not any(c in t2 for c in WS + b"\x0b\x00"):
                cases.append(get_line(l2, t2, signing, ttl2, k2))
        sigexp = list(range(b.sig_at - 2, b.exp_at + 8))
        for m in rng.sample(char_perturbations(b.signed, sigexp, rng, 1), 5 if tier == "quick" else 30):
            if ks_ok(m) and b"\n" not in m:
                cases.append(get_line(m, b.tok, True, b.ttl, b.key))
        # the same locator requested with structurally related tokens (one '/'-part changed,
        # prefix parts dropped, wrapped): keepstore must serve it to the signing token only
        tvs = [t2 for t2 in token_variants(b.tok, rng) if not any(c in t2 for c in WS + b"\x0b\x00")]
        for t2 in (rng.sample(tvs, min(4, len(tvs))) if tier == "quick" else tvs):
            cases.append(get_line(b.signed, t2, True, b.ttl, b.key))
        # "at now": signed by keepstore for the second that has begun, requested at once
        if b.key and b.tok and STRICT_UNSIGNED.fullmatch(b.unsigned) and BLK.match(b.unsigned):
            body = STORED_BY_HASH.get(b.unsigned[:32])
            present = "absent" if body is None else "p" + body.hex()
            cases.append(f"getnow {H(b.unsigned)} {H(b.tok)} {b.ttl} {H(b.key)} {present} {NOMINAL_NOW_NS}")
        # case-only changes of the signature (always present: keepstore must refuse them too)
        sig = b.signed[b.sig_at:b.sig_at + 40]
        letters = [i for i in range(40) if sig[i:i + 1].isalpha()]
        cases.append(get_line(b.signed[:b.sig_at] + sig.upper() + b.signed[b.sig_at + 40:], b.tok, True, b.ttl, b.key))
        if letters:
            i = b.sig_at + rng.choice(letters)
            cases.append(get_line(b.signed[:i] + b.signed[i:i + 1].upper() + b.signed[i + 1:], b.tok, True, b.ttl, b.key))
        # remote hints with and without a local signature
        rh = b"+R" + rng.choice([b"zzzzz-" + b"a" * 40 + b"@" + b"%08x" % g_exp(rng), b"x", b"", b"abcde-x"])
        cases.append(get_line(b.unsigned + rh, b.tok, True, b.ttl, b.key))
        cases.append(get_line(b.unsigned + rh, b"", True, b.ttl, b.key))
        cases.append(get_line(ref_sign(b.unsigned + rh, b.tok, b.exp, b.ttl, b.key), b.tok, True, b.ttl, b.key))
        cases.append(get_line(b.signed + rh, b.tok, True, b.ttl, b.key))
        # routing
        cases.append(get_line(b.signed + b"+", b.tok, signing, b.ttl, b.key))
        cases.append(get_line(b.unsigned[:32] + b"+", b.tok, False, b.ttl, b.key))
        cases.append(get_line(b.unsigned[:32] + b"x", b.tok, False, b.ttl, b.key))
        cases.append(get_line(b.unsigned[:32].upper() + b.signed[32:], b.tok, signing, b.ttl, b.key))
    for i in range(12 if tier == "quick" else 150):
        tok = g_token(rng)
        while any(c in tok for c in WS + b"\x0b\x00"):
            tok = g_token(rng)
        tok2 = rng.choice([tok + b"x", b"", b"other"] + [t2 for t2 in token_variants(tok, rng) if not any(c in t2 for c in WS + b"\x0b\x00")])
        ttl = rng.choice([60, 3600, 1209600, 90, 86400 * 365 * 15, 86400 * 365 * 60]) * 10 ** 9 + rng.choice([0, 0, 500000000])
        if rng.random() < 0.2:
            ttl = -rng.choice([5, 3600]) * 10 ** 9
        if rng.random() < 0.1:
            tok = b""
        key = g_key(rng) if rng.random() < 0.9 else b""
        signing = bool(key) and rng.random() < 0.85
        body = b"verif-c07 put %d " % i + bytes(rng.randrange(256) for _ in range(rng.randint(0, 40)))
        cases.append(f"put {H(body)} {H(tok)} {H(tok2)} {1 if signing else 0} {ttl} {H(key)} {NOMINAL_NOW_NS}")
    return cases


URLSAFE = set(b"abcdefghijklmnopqrstuvwxyzABCDEFGHIJKLMNOPQRSTUVWXYZ0123456789+@_-.~:,;=!$&'()*")


def pct(b, rng, p):
    """percent-encode every byte outside URLSAFE and, with probability p, any other byte"""
    out = b""
    for c in b:
        if c not in URLSAFE or rng.random() < p:
            out += (b"%%%02X" if rng.random() < 0.5 else b"%%%02x") % c
        else:
            out += bytes([c])
    return out


def url_line(raw, hdr, signing, ttl, key, stored_hash):
    body = STORED_BY_HASH.get(stored_hash)
    present = "absent" if body is None else "p" + body.hex()
    h = "none" if hdr is None else H(hdr)
    return f"geturl {H(raw)} {h} {1 if signing else 0} {ttl} {H(key)} {present} {NOMINAL_NOW_NS}"


def gen_url(rng, tier):
    """raw request paths (extra slashes, dot segments, percent-escapes, broken escapes) and raw
    Authorization header values around valid signed locators"""
    cases = []
    for _ in range(25 if tier == "quick" else 400):
        b = Base(rng, stored=0.9)
        while any(c in b.tok for c in WS + b"\x0b\x00") or not b.tok:
            b = Base(rng, stored=0.9)
        L, hh = b.signed, b.unsigned[:32]
        good = b"Bearer " + b.tok
        e = lambda x, p=0.0: pct(x, rng, p)
        paths = [b"/" + e(L), b"/" + e(L, 0.1), b"/" + e(L, 1.0), b"//" + e(L), b"/./" + e(L), b"/x/../" + e(L), b"/../" + e(L),
                 b"/" + e(L) + b"/", b"/" + e(L) + b"/.", b"/" + e(L) + b"/..", b"/" + e(L) + b"//", b"/%2e/" + e(L), b"/%2E%2e/" + e(L),
                 b"/" + e(L) + b"%2F", b"/" + e(L) + b"%2fx", b"/" + e(L[:40]) + b"/" + e(L[40:]), b"/" + e(L).replace(b"+", b"%2B"),
                 b"/" + e(L).replace(b"A", b"%41"), b"/" + e(L) + b"%", b"/" + e(L) + b"%4", b"/" + e(L) + b"%zz", b"/" + e(L) + b"%0a",
                 b"/" + e(L) + b"%00", b"/" + e(b.unsigned), b"/" + e(b.unsigned) + b"/" + e(L[len(b.unsigned):]), b"/", b"/..", b"/x",
                 b"/" + e(hh), b"/" + e(hh) + b"/", b"/" + e(hh.upper() + L[32:])]
        for (l2, t2, ttl2, k2) in rng.sample(field_perturbations(b, rng), 4):
            if safe_for_clock(l2) and t2 == b.tok and ttl2 == b.ttl and k2 == b.key:
                paths.append(b"/" + e(l2, 0.05))
        for raw in (rng.sample(paths, 12) if tier == "quick" else paths):
            cases.append(url_line(raw, good, True, b.ttl, b.key, hh))
        ws = lambda: rng.choice([b" ", b"  ", b"\t", b" \t\n ", b"\r\n ", b"\x0c"])
        hdrs = [good, b"OAuth2 " + b.tok, b"OAuth2" + ws() + b.tok, b"Bearer" + ws() + b.tok, None, b"", b"Bearer", b"Bearer ", b"Bearer" + b.tok,
                b"bearer " + b.tok, b"BEARER " + b.tok, b"oauth2 " + b.tok, b"Basic " + b.tok, b"Token " + b.tok, b" Bearer " + b.tok,
                b"Bearerx " + b.tok, b"OAuth2\x0b" + b.tok, b"Bearer\xa0" + b.tok, good + b"\n", good + b"\nx", good + b" ", good + b"\r",
                b"Bearer " + b.tok[:-1], b"OAuth2 Bearer " + b.tok, b"Bearer OAuth2 " + b.tok, b"Bearer \n" + b.tok + b"\n" + b.tok]
        for hdr in (rng.sample(hdrs, 10) if tier == "quick" else hdrs):
            cases.append(url_line(b"/" + e(L), hdr, rng.random() < 0.9, b.ttl, b.key, hh))
    return cases


def gen_remote(rng, tier):
    """the remote-proxy exit of handleGET: locators with +R and without +A"""
    cases = []
    sigch = "abcdef0123456789"
    for _ in range(160 if tier == "quick" else 4000):
        r = rng.random()
        if r < 0.45:
            h = rng.choice(list(REMOTE_BY_HASH))
        elif r < 0.7:
            h = rng.choice([x for x in STORED_BY_HASH if x != b"d41d8cd98f00b204e9800998ecf8427e" or rng.random() < 0.3])
        else:
            h = g_hash(rng)
        if rng.random() < 0.04:
            h = h.upper()
        parts = [h]
        if rng.random() < 0.8:
            # keepclient.Get (C03's ground) rejects a reply whose length contradicts the size hint,
            # so blocks the stub remote holds get their true size
            held = REMOTE_BY_HASH.get(h)
            parts.append(b"%d" % (len(held) if held is not None else rng.choice([0, 3, 17, rng.randrange(1 << 26)])))
        hints = [x for x in g_hints(rng) if not x.startswith(b"R")]
        def rhint():
            rid = rng.choice([b"zremo", b"zremo", b"zremo", b"zrem2", b"other", b"ZREMO"])
            sig = "".join(rng.choice(sigch) for _ in range(rng.choice([1, 8, 40]))).encode() + rng.choice([b"", b"@" + b"%08x" % g_exp(rng)])
            q = rng.random()
            if q < 0.75:
                return b"R" + rid + b"-" + sig
            if q < 0.8:
                return b"R" + rid + b"-"                 # 7 characters: too short for the remote-hint shape
            if q < 0.85:
                return b"R" + rid                          # no dash
            if q < 0.9:
                return b"R" + rid + b"x" + sig             # character 6 is not '-'
            if q < 0.95:
                return b"R" + rid[:3] + b"-" + sig
            return b"R"
        rh = [rhint() for _ in range(rng.choice([1, 1, 1, 2, 3]))]
        allh = hints + rh
        rng.shuffle(allh)
        loc = b"+".join(parts + allh)
        q = rng.random()
        if q < 0.45:
            tok = ("v2/zzzzz-gj3su-" + "".join(rng.choice(LHEX) for _ in range(15)) + "/" + "".join(rng.choice(TOKCH) for _ in range(rng.choice([10, 39, 41, 50])))).encode()
        elif q < 0.55:
            tok = ("v2/" + rng.choice(["zremo", "zrem2", "other", "zzzzz"]) + "-gj3su-000000000000000/" + "".join(rng.choice(LHEX) for _ in range(40))).encode()
        elif q < 0.65:
            tok = "".join(rng.choice("abcdefghijklmnopqrstuvwxyz0123456789") for _ in range(rng.choice([40, 41, 50]))).encode()
        elif q < 0.72:
            tok = b""
        elif q < 0.8:
            tok = rng.choice([b"v2/x", b"v2//", b"v2/a/b/c", b"v3/a/bcd", b"V2/a/b", b"v2/a/" + b"A" * 41])
        else:
            tok = g_token(rng)
            while any(c in tok for c in WS + b"\x0b\x00"):
                tok = g_token(rng)
        remotes = rng.choice(["zremo", "zremo", "zremo,zrem2", "zrem2", "-"])
        body = REMOTE_BY_HASH.get(loc[:32])
        rpresent = "absent" if body is None else "p" + body.hex()
        if b"/" in loc or b"+A" in loc or not safe_for_clock(loc):
            continue
        # what the remote cluster does: mostly healthy; otherwise a refusal or a fault on every request
        mode = "ok" if rng.random() < 0.55 else rng.choice(REMOTE_MODES)
        if mode == "short" and not (len(parts) > 1 and re.fullmatch(rb"[0-9]{1,18}", parts[1]) and int(parts[1]) != 1):
            mode = "503"
        cases.append(f"getremote {H(loc)} {H(tok)} {remotes} {g_ttl(rng)} {H(g_key(rng) or b'k')} {rpresent} {NOMINAL_NOW_NS} {mode}")
    return cases


REMOTE_MODES = ["403", "404", "401", "408", "429", "500", "502", "503", "503", "504", "drop", "drop", "short"]


def gen_kc(rng, tier):
    """the same sign/verify questions asked through sdk/go/keepclient's re-exports"""
    n = 60 if tier == "quick" else 3000
    cases = ["kc" + c for c in gen_sign(rng, "quick")[:n // 3]]
    vs = gen_verify(rng, "quick")
    cases += ["kc" + c for c in rng.sample(vs, min(len(vs), n))]
    return cases


def generate(rng, tier):
    return (gen_verify(rng, tier) + gen_sign(rng, tier) + gen_near(rng, tier) + gen_manifest(rng, tier) + gen_ks(rng, tier)
            + gen_url(rng, tier) + gen_kc(rng, tier) + gen_remote(rng, tier))


def describe(cases, impl):
    ops, verdicts, status, tok_special, hints_after, exp_side = {}, {}, {}, 0, 0, {}
    for c, r in zip(cases, impl):
        f = c.split(" ")
        ops[f[0]] = ops.get(f[0], 0) + 1
        if r is None:
            continue
        if f[0] in ("verify", "near", "kcverify"):
            v = r.split(" ")[0]
            verdicts[v] = verdicts.get(v, 0) + 1
        if f[0] == "getremote":
            k = "remote:" + r.split(" ")[0] + ("" if r.endswith("| -") else "+forwarded") + ("" if len(f) < 9 or f[8] == "ok" else "/fault")
            status[k] = status.get(k, 0) + 1
        if f[0] in ("get", "put", "getnow", "geturl"):
            s = r.split(" ")[0]
            status[s] = status.get(s, 0) + 1
        if f[0] in ("verify", "near", "sign", "get") and any(x in U(f[2]) for x in (b"@", b"+")):
            tok_special += 1
        if f[0] in ("verify", "kcverify"):
            m = STRICT.fullmatch(U(f[1]))
            if m:
                if m.group(6):
                    hints_after += 1
                side = "past" if int(m.group(5), 16) <= PAST_MAX else "future"
                exp_side[side] = exp_side.get(side, 0) + 1
        if f[0] == "near":
            k = "near" + ("-" if int(f[3]) < 0 else "+" if int(f[3]) > 0 else "=at-now")
            exp_side[k] = exp_side.get(k, 0) + 1
    return {"ops": ops, "verify_verdicts": verdicts, "keepstore_status": status,
            "cases_with_@_or_+_in_token": tok_special, "well_formed_with_hints_after_signature": hints_after,
            "expiry_side": exp_side}


def neighbours(case, rng):
    f = case.split(" ")
    out = []
    if f[0] in ("verify", "get"):
        loc = U(f[1])
        for _ in range(20):
            if not loc:
                break
            i = rng.randrange(len(loc))
            m = loc[:i] + bytes([rng.choice(SUBST)]) + loc[i + 1:]
            if safe_for_clock(m) and (f[0] == "verify" or (b"/" not in m)):
                out.append(" ".join([f[0], H(m)] + f[2:]))
        b = Base(rng, stored=0.8 if f[0] == "get" else 0.0)
        while any(c in b.tok for c in WS + b"\x0b\x00"):
            b = Base(rng, stored=0.8 if f[0] == "get" else 0.0)
        for (l2, t2, ttl2, k2) in [(b.signed, b.tok, b.ttl, b.key)] + field_perturbations(b, rng):
            if not safe_for_clock(l2) or any(c in t2 for c in WS + b"\x0b\x00"):
                continue
            if f[0] == "verify":
                out.append(verify_line(l2, t2, ttl2, k2))
            elif b"/" not in l2:
                out.append(get_line(l2, t2, True, ttl2, k2))
    elif f[0] == "sign":
        out += gen_sign(rng, "quick")[:30]
    elif f[0] == "near":
        out += gen_near(rng, "quick")[:30]
    elif f[0] == "manifest":
        out += gen_manifest(rng, "quick")[:30]
    else:
        out += [c for c in gen_ks(rng, "quick") if c.startswith("put ")][:5]
    return out
