"""C20 plugin: federated list-by-UUID (lib/controller/federation/list.go, generated.go, conn.go).

Case line / result line: see the header of
harness/overlay/lib/controller/federation/zz_verif_c20_test.go.
"""
import collections
import itertools
import os
import subprocess

ID = "C20"
RULE = ("list requests over a controller with a local backend, 0-3 known remotes and unknown cluster ids; "
        "uuid sets spanning 1-4 clusters (existing, non-existing, malformed, duplicated uuids; 1-3 uuid filters "
        "with '='/'in', []interface{} and []string operands, non-string elements, so that the intersection "
        "matters), other filters, count/limit/offset/order/select/bypass/forwarded-for variations, "
        "MaxItemsPerResponse around the number of uuids; per backend call a scripted answer (page size 0..n or "
        "all, forward/reverse/rotated order, error with or without status, item outside the batch: already "
        "delivered / duplicated in the page / never requested / foreign, alone or next to wanted items); plus, "
        "for base requests paged one item at a time, an error / no-progress / repeated item injected at every "
        "backend call index; plus a cancellation stream (one cluster fails by itself, another one's backend waits "
        "for the context to be cancelled at a chosen call); about one case in eight uses only three distinct "
        "modified_at values (ties in the merge order); plus a stream where the caller's context ends during a chosen "
        "backend call; plus requests sent through HTTP and the real controller router (op hlist), remotes behind "
        "rpc.Conn -> router too, with uuid lists below and above the 1000-byte POST-override threshold; plus user lists with Login.LoginCluster set (known remote, local, "
        "unknown, malformed; bypass; failing backend / cache update); plus requests over 2-4 known clusters where the "
        "per-cluster goroutines are made to rendezvous between writing their first request and handing it to the "
        "callback (op slist<N>, instrumented list.go). Non-trivial = the request involves a cluster other than the local one and is not "
        "bypassed; distinct = distinct case line")
ASSUMPTIONS = [
    "a backend is a function of the forwarded options and the per-backend call index; stub backends ignore context "
    "cancellation except for the scripted action 'w', which blocks until the context is cancelled (so call logs "
    "never depend on goroutine timing)",
    "an empty page means the remaining requested objects of that cluster no longer exist (as list.go says: "
    "'Zero items == no more results exist')",
    "objects with equal modified_at may be returned in either order (unstable sort.Slice): compare accepts any order "
    "of the model's result that keeps the modified_at sequence",
    "honest-backend hypothesis of C20_exactly_once (success + completeness): each page is a duplicate-free list of "
    "existing objects whose uuid is in the batch, non-empty while such objects remain; C20_safe needs no hypothesis "
    "on the backends; a page with an item outside its batch makes the request fail with 502 (fix d542fa4, F10)",
]
TRUSTED = ["stub backends (zz_verif_c20_test.go) and their mirror scriptBackend in Driver/C20.lean",
           "lib/controller/localdb/login_pam.go replaced by a stub so that the package builds without the PAM header"]

OVERLAY_EXTRA = {"lib/controller/localdb/login_pam.go": "harness/overlay_extra/login_pam_stub.go"}

VERIF = os.path.dirname(os.path.dirname(os.path.dirname(os.path.abspath(__file__))))


def overlay_generated(repo, workdir):
    """Instrumented copy of the CURRENT list.go (add-only): verifC20Point("splitListRequest:fn:<k>") before every
    statement of splitListRequest that calls the merge callback fn. A no-op except for op slist<N>, where the
    per-cluster goroutines rendezvous there (request for the batch written, not yet handed to fn)."""
    out = os.path.join(workdir, "list.go")
    inst = os.path.join(VERIF, "build", "instrument")
    try:
        if not os.path.exists(inst):
            env = dict(os.environ, GOFLAGS="-mod=mod", GOPROXY="off", GOSUMDB="off", GOTOOLCHAIN="local")
            subprocess.check_call(["go", "build", "-o", inst, "./instrument"], cwd=os.path.join(VERIF, "translator"), env=env)
        subprocess.check_call([inst, "-in", os.path.join(repo, "lib/controller/federation/list.go"), "-out", out,
                               "-points", os.path.join(workdir, "c20_points.json"), "-match", "fn",
                               "-funcs", "splitListRequest", "-hook", "verifC20Point"])
    except Exception as e:  # the build then fails and is reported as a broken correspondence
        open(out, "w").write("package federation\n\nfunc init() { instrumenter failed: %s }\n" % str(e).replace("\n", " "))
    return {"lib/controller/federation/list.go": out}


DRIVERS = {"fed": {"kind": "gotest", "pkg": "lib/controller/federation", "test": "TestVerifC20", "min_chunk": 200}}

ALNUM = "abcdefghijklmnopqrstuvwxyz0123456789"
KINDS = ["coll", "ctr", "cr", "grp", "spec", "user"]
TYPES = {"coll": "4zz18", "ctr": "dz642", "cr": "xvhdp", "grp": "j7d0g", "spec": "j58dm", "user": "tpzed"}


def channel(case):
    return "fed"


# ------------------------------------------------------------------------------------- case model

class Case:
    pass


def _list(s, sep):
    return [] if s in ("-", "") else s.split(sep)


def parse_case(line):
    f = line.split(" ")
    c = Case()
    c.kind, c.local, c.max = f[1], f[2], int(f[3])
    c.login = None
    if "@" in c.kind:
        c.kind, c.login = c.kind.split("@", 1)
    c.remotes = _list(f[4], ",")
    o = f[5].split("/")
    c.count = "" if o[0] == "~" else o[0]
    c.limit, c.offset = int(o[1]), int(o[2])
    c.order = _list(o[3], "+")
    c.select = None if o[4] == "-" else o[4].split("+")
    c.bypass = o[5] == "1"
    c.fwd = "" if o[6] == "-" else o[6]
    c.flags = o[7] if len(o) > 7 else "000"
    c.extra = o[8] if len(o) > 8 else "-+-+-"
    c.filters = []
    for fs in _list(f[6], ";"):
        attr, op, operand = fs.split("~", 2)
        c.filters.append((attr, op, operand))
    c.world = {}
    for p in _list(f[7], ","):
        u, ts = p.split("@")
        c.world[u] = int(ts)
    c.scripts = {}
    for sc in _list(f[8], ";"):
        i, acts = sc.split("=", 1)
        c.scripts[i] = acts.split("|")
    return c


def operand_strings(operand):
    """uuids a '='/'in' filter with this operand can match, or None if the operand type is invalid for it"""
    k, body = operand[0], operand[2:]
    if k == "s":
        return ("str", [body])
    if k == "t":
        return ("list", [] if body == "" else body.split(","))
    if k == "i":
        return ("list", [] if body == "" else [e for e in body.split(",") if not e.startswith("#")])
    return ("other", [])


def _render_filters(filters):
    """the filter list as the drivers print it in the call log"""
    out = []
    for attr, op, operand in filters:
        k, body = operand[0], operand[2:]
        if k == "i":
            body = ",".join("#" if e.startswith("#") else e for e in body.split(",")) if body else ""
        elif k == "t":
            body = ",".join(sorted(body.split(","))) if body else ""
        elif k == "n":
            body = ""
        out.append(f"{attr}~{op}~{k}:{body}")
    return ";".join(out) or "-"


class Out:
    pass


def parse_out(impl):
    parts = impl.split(" | ")
    o = Out()
    head = parts[0].split(" ")
    o.ok = head[0] == "ok"
    o.items = _list(head[1], ",") if o.ok else []
    o.status = None if o.ok else head[1]
    o.calls = collections.OrderedDict()
    for l in parts[1:]:
        if l == "-":
            continue
        cid, rest = l.split(": ", 1)
        lst = []
        for call in rest.split(" // "):
            req, resp = call.split(" => ")
            kv = dict(x.split("=", 1) for x in req.split(" "))
            lst.append((kv, resp))
        o.calls[cid] = lst
    return o


def _resp_items(resp):
    return None if resp.startswith("E") else _list(resp[1:], ",")


# ------------------------------------------------------------------------------------- compare

def _tsmap(case):
    """modified_at of every object a backend can return in this case (world + injected items)"""
    f = case.split(" ")
    ts = {}
    for p in _list(f[7], ","):
        u, t = p.split("@")
        ts[u] = int(t)
    for sc in _list(f[8], ";"):
        for act in sc.split("=", 1)[1].split("|"):
            for sep in "+^":
                if act.startswith("p") and sep in act:
                    for p in act.split(sep, 1)[1].split(","):
                        u, t = p.split("@")
                        ts[u] = int(t)
    return ts


def compare(case, impl, model):
    if " | " not in impl or " | " not in model:
        return impl == model
    ih, il = impl.split(" | ", 1)
    mh, ml = model.split(" | ", 1)
    if case.startswith("hlist ") and mh.startswith("err ") and ih.startswith("err "):
        # real RPC backends honour the cancellation that follows the first error: which calls of the other
        # clusters still reach their backend depends on timing, so only the error is compared
        return ih[4:] in mh[4:].split("|")
    if il != ml:
        return False
    if mh.startswith("err ") and ih.startswith("err "):
        # Go returns the error of whichever failing cluster reports first
        return ih[4:] in mh[4:].split("|")
    if ih == mh:
        return True
    if ih.startswith("ok ") and mh.startswith("ok "):
        # objects with equal modified_at may come in either order (unstable sort.Slice, arrival order)
        a, b = _list(ih[3:], ","), _list(mh[3:], ",")
        ts = _tsmap(case)
        return sorted(a) == sorted(b) and [ts.get(u) for u in a] == [ts.get(u) for u in b]
    return False


# ------------------------------------------------------------------------------------- oracle

def _analyse(c):
    """What the property text says about this request, independent of any output."""
    a = Case()
    a.passthrough = None
    if c.bypass or c.fwd:
        a.passthrough = "client asked for no federation"
        return a
    sets = []
    a.other_filters = False
    a.bad_operand = False
    for attr, op, operand in c.filters:
        if attr != "uuid" or op not in ("=", "in"):
            a.other_filters = True
            continue
        kind, strs = operand_strings(operand)
        if (op == "=" and kind != "str") or (op == "in" and kind != "list"):
            a.bad_operand = True
            continue
        sets.append(set(strs))
    if a.bad_operand:
        return a
    if not sets:
        a.passthrough = "not filtered by uuid"
        return a
    req = set.intersection(*sets)
    a.r27 = sorted(u for u in req if len(u) == 27)
    a.groups = collections.OrderedDict()
    for u in a.r27:
        a.groups.setdefault(u[:5], []).append(u)
    if list(a.groups) == [c.local]:
        a.passthrough = "all requested uuids are local"
    return a


def oracle(case, impl):
    """From the property text, on the implementation output (result, error, backend call log) only."""
    if not impl.startswith(("ok ", "err ")):
        if impl.startswith("runaway") or impl.startswith("timeout"):
            return "request keeps calling a backend / does not return: " + impl[:100]
        return "driver could not observe a result: " + impl[:200]
    c = parse_case(case)
    o = parse_out(impl)
    a = _analyse(c)
    upd = o.calls.pop(c.local + "#upd", None)
    ncalls = sum(len(v) for v in o.calls.values())
    for cid, calls in o.calls.items():
        for req, _ in calls:
            if req.get("X", "000") != c.flags:
                return f"backend {cid} did not get the request's include_trash/include_old_versions/distinct options"
            if not case.startswith("hlist ") and req.get("Y", "-+-+-") != c.extra:
                return f"backend {cid} did not get the request's where/include/cluster_id options"
    if c.login and c.login != c.local and not c.bypass:
        # conn.go UserList with a LoginCluster: not the federated list of the property. What its comment and
        # batchUpdateUsers promise: one call to the login cluster's backend (local if it has no proxy), options
        # unchanged, the answer passed on; returned users of the login cluster are cached locally first.
        cid = c.login[:5] if len(c.login) == 27 else c.login if len(c.login) == 5 else None
        target = cid if (cid is not None and cid != c.local and cid in c.remotes) else c.local
        if list(o.calls) != [target] or ncalls != 1:
            return f"LoginCluster {c.login}: expected exactly one call to backend {target}, log has {[(k, len(v)) for k, v in o.calls.items()]}"
        req, resp = o.calls[target][0]
        if req["W"] != "~" or req["F"] != _render_filters(c.filters):
            return "LoginCluster: the request was not handed on unchanged"
        items = _resp_items(resp)
        if items is None:
            return None if not o.ok and not upd else "login cluster failed but the request succeeded or users were cached"
        want = sorted({u for u in items if u.startswith(c.login)})
        if bool(upd) != bool(want) or (upd and (len(upd) != 1 or upd[0][0]["U"] != ",".join(want))):
            return f"LoginCluster: users cached locally {upd} but the login cluster's users in the answer are {want}"
        if upd and upd[0][1].startswith("E"):
            return None if not o.ok else "user cache update failed but the request succeeded"
        if not o.ok or o.items != items:
            return "LoginCluster: result differs from the login cluster's answer"
        return None
    if upd:
        return "UserBatchUpdate called although the request does not go to a login cluster"
    if a.passthrough:
        # not a federated request: exactly one call, to the local backend, and its answer is the answer
        if list(o.calls) != [c.local] or ncalls != 1:
            return f"{a.passthrough}: expected exactly one call to the local backend, log has {[(k, len(v)) for k, v in o.calls.items()]}"
        items = _resp_items(o.calls[c.local][0][1])
        if items is None:
            return None if not o.ok else "local backend failed but the request succeeded"
        if not o.ok:
            return "local backend answered but the request failed"
        if o.items != items:
            return "result differs from the local backend's answer"
        return None
    if a.bad_operand:
        # an invalid query; the property only requires that nothing is called for a rejected query
        if not o.ok and ncalls:
            return "query rejected after calling a backend"
        return None
    if not a.groups:
        # only malformed uuids (or an empty intersection): nothing can exist
        if not o.ok or o.items or ncalls:
            return "no well-formed uuid requested: expected an empty result without backend calls"
        return None
    unsplittable = []
    if a.other_filters:
        unsplittable.append("other filters")
    if c.count != "none":
        unsplittable.append("count")
    if c.limit >= 0:
        unsplittable.append("limit")
    if c.offset != 0:
        unsplittable.append("offset")
    if c.order:
        unsplittable.append("order")
    if len(a.r27) > c.max:
        unsplittable.append("more uuids than the page limit")
    if unsplittable:
        if o.ok:
            return f"query that cannot be split safely ({', '.join(unsplittable)}) was not rejected"
        if ncalls:
            return f"unsplittable query ({', '.join(unsplittable)}) rejected only after calling a backend"
        if not o.status.isdigit() or not 400 <= int(o.status) < 500:
            return f"unsplittable query rejected with status {o.status}, expected a 4xx"
        return None
    # a federated, splittable request
    for cid in o.calls:
        if cid not in a.groups:
            return f"backend {cid} was called although no requested uuid names it"
    fail = []
    expected = collections.Counter()
    strays = collections.Counter()
    undelivered = None
    for cid, todo in a.groups.items():
        known = cid == c.local or cid in c.remotes
        calls = o.calls.get(cid, [])
        if not known:
            fail.append(f"cluster {cid} is unknown")
            continue
        if len(calls) > len(todo) + 1:
            return f"backend {cid} called {len(calls)} times for {len(todo)} uuids"
        outstanding = set(todo)
        delivered = []
        gone = False
        for i, (req, resp) in enumerate(calls):
            flt = req["F"]
            if not flt.startswith("uuid~in~t:") or ";" in flt:
                return f"backend {cid} got a request that is not a single uuid-in filter: {flt[:80]}"
            batch = _list(flt[len("uuid~in~t:"):], ",")
            if not batch or not set(batch) <= set(todo):
                return f"backend {cid} was asked for uuids that were not requested from it"
            if not set(batch) <= outstanding:
                return f"backend {cid} was asked again (call {i}) for a uuid it had already delivered"
            items = _resp_items(resp)
            if items is None:
                fail.append(f"cluster {cid} returned an error at call {i}")
                continue
            if not items:
                gone = True
                continue
            prog = False
            for u in items:
                if u in outstanding:
                    outstanding.discard(u)
                    delivered.append(u)
                    prog = True
                else:
                    # outside the batch this call was given, or a second copy within the page
                    strays[u] += 1
            if not prog:
                fail.append(f"cluster {cid} answered call {i} without progress")
        # an object exists on its home cluster if the world says so or the backend handed it over
        want = delivered if gone else [u for u in todo if u in c.world or u in delivered]
        for u in want:
            if u not in delivered and undelivered is None:
                undelivered = f"{u} exists on {cid} but was never obtained from that cluster"
            expected[u] += 1
    if fail:
        if o.ok:
            return "partial result returned as success although " + "; ".join(fail)
        return None
    if not o.ok:
        if strays:
            # a backend returned items outside its batch next to wanted ones: failing the whole request is the
            # safe answer (fix d542fa4 for F10); succeeding with the surplus is a violation (checked below)
            return None
        return f"request failed (status {o.status}) although every involved cluster answered with progress"
    if undelivered:
        return undelivered
    got = collections.Counter(o.items)
    if got == expected:
        return None
    missing = expected - got
    extra = got - expected
    if not missing and extra and extra == strays:
        # the shape of finding F10 (fixed by d542fa4): a page with wanted items plus items outside its batch merged wholesale
        return ("a page carried, next to wanted items, items outside its batch and the result repeats/includes them: "
                + ",".join(sorted(extra)))
    if missing:
        return "requested existing objects missing from the result: " + ",".join(sorted(missing))
    return "result contains objects more often than once / not requested: " + ",".join(sorted(extra))


def nontrivial_key(case, impl):
    c = parse_case(case)
    if c.login and c.login != c.local and not c.bypass:
        return None
    a = _analyse(c)
    if a.passthrough or a.bad_operand or not a.groups:
        return None
    return case


def describe(cases, impl):
    d = collections.Counter()
    nclusters = collections.Counter()
    kinds = collections.Counter()
    outcomes = collections.Counter()
    calls = collections.Counter()
    for cs, im in zip(cases, impl):
        c = parse_case(cs)
        a = _analyse(c)
        kinds[c.kind] += 1
        if cs.startswith("hlist "):
            d["through HTTP (rpc.Conn -> router), " + ("long" if len(cs.split(" ")[6]) >= 700 else "short") + " uuid list"] += 1
        if cs.startswith("slist"):
            d["per-cluster goroutines rendezvous before their first call (slist)"] += 1
        if c.login is not None:
            d["user list with LoginCluster " + ("(detour)" if c.login != c.local and not c.bypass else "(no detour)")] += 1
        if a.passthrough:
            d["passthrough: " + a.passthrough] += 1
        elif a.bad_operand:
            d["invalid operand type"] += 1
        elif not a.groups:
            d["no well-formed uuid"] += 1
        else:
            d["federated"] += 1
            nclusters[len(a.groups)] += 1
            if any(g != c.local and g not in c.remotes for g in a.groups):
                d["federated with unknown cluster"] += 1
        if c.extra != "-+-+-":
            d["where/include/cluster_id set"] += 1
        for acts in c.scripts.values():
            for act in acts:
                if act == "w":
                    d["script: waits for context cancellation"] += 1
                elif act == "c":
                    d["script: caller's context ends during this call"] += 1
                elif act.startswith("e"):
                    d["script: error"] += 1
                elif "+" in act or "^" in act:
                    d["script: injected item"] += 1
                elif act.startswith("p0"):
                    d["script: empty page"] += 1
        if im:
            h = im.split(" | ")[0].split(" ")
            outcomes[h[0] + (" " + h[1] if h[0] == "err" else "")] += 1
            if im.startswith(("ok", "err")):
                n = sum(len(v) for v in parse_out(im).calls.values())
                calls["0" if n == 0 else "1" if n == 1 else "2-4" if n <= 4 else "5-9" if n <= 9 else "10+"] += 1
    return {"regimes": dict(d), "clusters_involved": {str(k): v for k, v in sorted(nclusters.items())},
            "kinds": dict(kinds), "outcomes": dict(outcomes), "backend_calls_per_case": dict(calls)}


# ------------------------------------------------------------------------------------- generator

def _rand(rng, n):
    return "".join(rng.choice(ALNUM) for _ in range(n))


def _uuid(rng, prefix, kind):
    return f"{prefix}-{TYPES[kind]}-{_rand(rng, 15)}"


def _malformed(rng):
    n = rng.choice([1, 4, 5, 10, 26, 28, 40])
    return _rand(rng, n)


def _operand(rng, uuids, allow_nonstring=True):
    us = list(uuids)
    rng.shuffle(us)
    if rng.random() < 0.6:
        els = list(us)
        if allow_nonstring and rng.random() < 0.15:
            els.insert(rng.randint(0, len(els)), "#7")
        return "i:" + ",".join(els)
    return "t:" + ",".join(us)


def _fmt(kind, local, mx, remotes, opts, filters, world, scripts):
    o = "/".join([opts["count"] or "~", str(opts["limit"]), str(opts["offset"]), "+".join(opts["order"]) or "-",
                  "+".join(opts["select"]) if opts["select"] else "-", "1" if opts["bypass"] else "0", opts["fwd"] or "-",
                  opts.get("flags", "000")] + ([opts["extra"]] if opts.get("extra") else []))
    w = ",".join(f"{u}@{ts}" for u, ts in world) or "-"
    s = ";".join(f"{i}={'|'.join(a)}" for i, a in scripts.items() if a) or "-"
    return f"list {kind} {local} {mx} {','.join(remotes) or '-'} {o} {';'.join(filters) or '-'} {w} {s}"


def _honest_act(rng, n):
    k = rng.choice(["a", "1", "1", "2", str(rng.randint(1, max(1, n)))])
    o = rng.choice(["f", "f", "r", f"o{rng.randint(1, 5)}"])
    return f"p{k}.{o}"


def _base(rng, tier):
    """A request with its world; returns a dict of the pieces."""
    kind = rng.choice(KINDS)
    local = rng.choice(["aaaaa", "aaaaa", "zzzzz", _rand(rng, 5)])
    pool = ["bbbbb", "ccccc", "ddddd", "eeeee", "fffff"]
    rng.shuffle(pool)
    known = pool[:rng.choice([0, 1, 2, 2, 3, 3])]
    unknown = pool[3:]
    remotes = list(known)
    if rng.random() < 0.05:
        remotes.append(local)  # decoy: conn.remotes[local] must never be used
    # which clusters the request names
    cand = [local] + known
    ninv = rng.choice([1, 2, 2, 3, 3, 4])
    inv = rng.sample(cand, min(ninv, len(cand)))
    if rng.random() < 0.12:
        inv.append(rng.choice(unknown))
    tsp = rng.sample(range(1, 10000), 200)
    if rng.random() < 0.12:
        tsp = [rng.randint(1, 3) for _ in range(200)]  # many objects share a modified_at: ties in the merge order
    world, req = [], []
    for cid in [local] + known:
        objs = [_uuid(rng, cid, kind) for _ in range(rng.choice([0, 1, 2, 3, 5]))]
        for u in objs:
            world.append((u, tsp.pop()))
        if cid in inv:
            req += [u for u in objs if rng.random() < 0.7]
            req += [_uuid(rng, cid, kind) for _ in range(rng.choice([0, 0, 1, 2]))]
    for cid in inv:
        if cid not in [local] + known:
            req += [_uuid(rng, cid, kind) for _ in range(rng.choice([1, 2]))]
    if rng.random() < 0.2:
        req += [_malformed(rng) for _ in range(rng.choice([1, 2]))]
    if rng.random() < 0.03:
        req = [_malformed(rng) for _ in range(rng.choice([1, 3]))]
    if not req:
        req = [_uuid(rng, rng.choice(inv), kind)]
    return dict(kind=kind, local=local, known=known, remotes=remotes, world=world, req=req, tsp=tsp)


def _filters(rng, b):
    req = b["req"]
    kind = b["kind"]
    fl = []
    nf = rng.choice([1, 1, 1, 2, 2, 3])
    if nf == 1:
        lst = list(req)
        if rng.random() < 0.2 and lst:
            lst += [rng.choice(lst)]  # duplicate
        if len(set(lst)) == 1 and rng.random() < 0.7:
            fl.append("uuid~=~s:" + lst[0])
        else:
            fl.append("uuid~in~" + _operand(rng, lst))
    else:
        # several uuid filters: the request is their intersection
        pool = [_uuid(rng, rng.choice([b["local"]] + b["known"] + ["ggggg"]), kind) for _ in range(3)] + [u for u, _ in b["world"]]
        for i in range(nf):
            extra = [u for u in pool if rng.random() < 0.25]
            keep = list(req)
            if rng.random() < 0.3 and len(keep) > 1:
                keep.remove(rng.choice(keep))  # narrows the intersection
            lst = keep + extra
            if len(lst) == 1 and rng.random() < 0.5:
                fl.append("uuid~=~s:" + lst[0])
            else:
                fl.append("uuid~in~" + _operand(rng, lst))
    # intersections that become empty before the last uuid filter (an empty list, or disjoint filters, followed by
    # further non-empty uuid filters), at any position
    r = rng.random()
    if r < 0.06:
        fl.insert(rng.randint(0, len(fl)), rng.choice(["uuid~in~i:", "uuid~in~t:", "uuid~in~i:#7"]))
    elif r < 0.12 and len(set(req)) >= 2:
        us = sorted(set(req))
        rng.shuffle(us)
        k = rng.randint(1, len(us) - 1)
        a, b = us[:k], us[k:]
        pos = rng.randint(0, len(fl))
        fa = "uuid~=~s:" + a[0] if len(a) == 1 and rng.random() < 0.5 else "uuid~in~" + _operand(rng, a)
        fb = "uuid~=~s:" + b[0] if len(b) == 1 and rng.random() < 0.5 else "uuid~in~" + _operand(rng, b)
        fl[pos:pos] = [fa, fb]
    elif r < 0.15:
        fl.insert(rng.randint(0, len(fl)), "uuid~=~s:" + _uuid(rng, rng.choice([b["local"]] + b["known"] + ["ggggg"]), kind))
    return fl


def _requested(filters):
    sets = []
    for f in filters:
        attr, op, operand = f.split("~", 2)
        if attr == "uuid" and op in ("=", "in"):
            sets.append(set(operand_strings(operand)[1]))
    r = set.intersection(*sets) if sets else set()
    return sorted(u for u in r if len(u) == 27)


def _scripts(rng, b, r27, faults=True):
    scripts = {}
    world = dict(b["world"])
    tsp = b["tsp"]
    for cid in [b["local"]] + b["known"]:
        mine = [u for u in r27 if u[:5] == cid]
        exist = [u for u in mine if u in world]
        if not mine:
            continue
        acts = []
        mode = rng.random()
        n = len(exist)
        for i in range(len(mine) + 2):
            if mode < 0.25:
                acts.append("pa.f")
            elif mode < 0.5:
                acts.append(f"p1.{rng.choice(['f', 'r'])}")
            else:
                acts.append(_honest_act(rng, n))
        if faults and rng.random() < 0.45:
            j = rng.randint(0, max(0, min(len(acts) - 1, n)))
            r = rng.random()
            others = [u for u in world if u not in r27]
            if r < 0.2:
                acts[j] = "e" + rng.choice(["0", "404", "500", "502", "503"])
            elif r < 0.3:
                acts[j] = "p0.f"
            else:
                # an item outside the batch: already delivered / within-page duplicate / unrequested / fabricated
                cands = []
                if exist:
                    cands.append(rng.choice(exist))
                if others:
                    cands.append(rng.choice(others))
                new = _uuid(rng, rng.choice([cid, "ggggg"]), b["kind"])
                world[new] = tsp.pop()
                cands.append(new)
                inj = rng.sample(cands, rng.choice([1, 1, 2]) if len(cands) > 1 else 1)
                body = ",".join(f"{u}@{world[u]}" for u in inj)
                k = "0" if r < 0.55 else rng.choice(["1", "1", "2", "a"])
                acts[j] = f"p{k}.{rng.choice(['f', 'r'])}{rng.choice('+^')}{body}"
        scripts[cid] = acts
    return scripts


def _opts(rng, splittable=True):
    o = dict(count="none", limit=-1, offset=0, order=[], select=None, bypass=False, fwd="")
    if rng.random() < 0.25:
        o["select"] = rng.choice([["uuid"], ["name"], ["uuid", "name"], ["modified_at", "name", "owner_uuid"]])
    if rng.random() < 0.1:
        o["limit"] = rng.choice([-2, -100])
    if rng.random() < 0.2:
        o["flags"] = rng.choice(["100", "010", "001", "110", "111"])  # include_trash, include_old_versions, distinct
    if rng.random() < 0.15:
        # where / include / cluster_id: never read by the split, forwarded to every backend as they are
        o["extra"] = "+".join([rng.choice(["-", "name=foo", "owner_uuid=zzzzz-tpzed-000000000000000", "uuid=x"]),
                               rng.choice(["-", "container_uuid", "owner_uuid"]),
                               rng.choice(["-", "-", "bbbbb", "zzzzz", "qqqqq"])])
        if o["extra"] == "-+-+-":
            o["extra"] = "name=foo+-+-"
    if not splittable:
        r = rng.random()
        if r < 0.25:
            o["count"] = rng.choice(["exact", "", "None"])
        elif r < 0.5:
            o["limit"] = rng.choice([0, 1, 5, 100, 1000])
        elif r < 0.7:
            o["offset"] = rng.choice([1, 2, 50, -1])
        elif r < 0.9:
            o["order"] = rng.choice([["uuid"], ["modified_at"], ["name", "uuid"]])
        else:
            o["count"] = "exact"
            o["limit"] = 10
    return o


def _random_case(rng, tier):
    b = _base(rng, tier)
    fl = _filters(rng, b)
    r = rng.random()
    opts = _opts(rng, splittable=not (0.10 <= r < 0.22))
    if r < 0.10:
        # a filter that prevents splitting, at a random position
        other = rng.choice(["name~like~s:foo%", "owner_uuid~=~s:" + _uuid(rng, b["local"], "user"), "uuid~!=~s:" + b["req"][0],
                            "uuid~like~s:" + b["local"] + "-%", "uuid~not_in~t:" + b["req"][0], "modified_at~<~s:2020-01-01",
                            "name~=~n:3", "uuid~is_a~s:arvados#collection"])
        fl.insert(rng.randint(0, len(fl)), other)
    elif 0.22 <= r < 0.26:
        bad = rng.choice(["uuid~=~n:5", "uuid~in~s:" + b["req"][0], "uuid~in~n:0", "uuid~=~t:" + b["req"][0], "uuid~=~i:" + b["req"][0]])
        fl.insert(rng.randint(0, len(fl)), bad)
    elif 0.26 <= r < 0.29:
        opts["bypass"] = True
    elif 0.29 <= r < 0.32:
        opts["fwd"] = rng.choice(["zzzzz-", "bbbbb-ccccc-"])
    elif 0.32 <= r < 0.34:
        fl = [rng.choice(["name~like~s:x%", "owner_uuid~=~s:" + _uuid(rng, b["local"], "user")])] if rng.random() < 0.7 else []
    r27 = _requested(fl)
    n = len(r27)
    mx = rng.choice([n, n, n + 1, 100, 1000, max(0, n - 1), 1, 0, 3])
    if rng.random() < 0.75:
        mx = max(mx, n)
    sc = _scripts(rng, b, r27)
    return _fmt(b["kind"], b["local"], mx, b["remotes"], opts, fl, b["world"], sc)


def _systematic(rng, n_bases):
    """Requests paged one item at a time, with an error / a no-progress answer / a repeated item injected at
    every backend call index of every involved known cluster."""
    out = []
    for _ in range(n_bases):
        b = _base(rng, "quick")
        world = dict(b["world"])
        fl = ["uuid~in~" + _operand(rng, b["req"], allow_nonstring=False)]
        r27 = _requested(fl)
        opts = _opts(rng)
        order = rng.choice(["f", "r"])
        base = {}
        for cid in [b["local"]] + b["known"]:
            mine = [u for u in r27 if u[:5] == cid]
            if mine:
                base[cid] = [f"p1.{order}"] * (len(mine) + 1)
        out.append(_fmt(b["kind"], b["local"], 100, b["remotes"], opts, fl, b["world"], base))
        for cid, acts in base.items():
            exist = [u for u in r27 if u[:5] == cid and u in world]
            ncalls = len(exist) + (1 if len(exist) < len([u for u in r27 if u[:5] == cid]) else 0)
            for j in range(max(1, ncalls)):
                seq = exist if order == "f" else exist[::-1]
                prev = seq[:j]  # delivered before call j when paging one at a time in this order
                variants = ["e0", "e503", "p0.f"]
                if prev:
                    rep = f"{prev[-1]}@{world[prev[-1]]}"
                    variants += [f"p0.f+{rep}", f"p1.{order}+{rep}", f"p1.{order}^{rep}"]
                elif seq:
                    variants += [f"p1.{order}+{seq[0]}@{world[seq[0]]}"]  # duplicate within the page
                unreq = [u for u in world if u[:5] == cid and u not in r27]
                if unreq:
                    variants += [f"p0.f+{unreq[0]}@{world[unreq[0]]}", f"p1.{order}+{unreq[0]}@{world[unreq[0]]}"]
                for v in variants:
                    s2 = {k: list(a) for k, a in base.items()}
                    s2[cid][j] = v
                    out.append(_fmt(b["kind"], b["local"], 100, b["remotes"], opts, fl, b["world"], s2))
    return out


def _cancel_cases(rng, n):
    """Context cancellation: one involved cluster fails by itself (unknown cluster -> 404, or an error answer to
    its first call), another involved known cluster has a backend that honours its context and, at a chosen call,
    waits until the request is cancelled (script action "w")."""
    out = []
    tries = 0
    while len(out) < n and tries < 50 * n:
        tries += 1
        b = _base(rng, "quick")
        world = dict(b["world"])
        fl = ["uuid~in~" + _operand(rng, b["req"], allow_nonstring=False)]
        r27 = _requested(fl)
        opts = _opts(rng)
        knownc = [b["local"]] + b["known"]
        inv_known = [cid for cid in knownc if any(u[:5] == cid for u in r27)]
        inv_unknown = sorted({u[:5] for u in r27} - set(knownc))
        sc = {}
        if inv_unknown and inv_known:
            waiter = rng.choice(inv_known)
        elif len(inv_known) >= 2:
            root, waiter = rng.sample(inv_known, 2)
            sc[root] = ["e" + rng.choice(["0", "404", "500", "503"])]
        else:
            continue
        exist = [u for u in r27 if u[:5] == waiter and u in world]
        j = rng.randint(0, len(exist))
        sc[waiter] = [f"p1.{rng.choice('fr')}"] * j + ["w"]
        for cid in inv_known:
            if cid not in sc:
                sc[cid] = [_honest_act(rng, 3) for _ in range(rng.randint(0, 3))]
        out.append(_fmt(b["kind"], b["local"], 100, b["remotes"], opts, fl, b["world"], sc))
    return out


def _caller_cancel_cases(rng, n):
    """The caller's context ends (script action "c") during a chosen backend call of one involved known cluster;
    the other clusters answer honestly (or fail by themselves)."""
    out = []
    tries = 0
    while len(out) < n and tries < 50 * n:
        tries += 1
        b = _base(rng, "quick")
        world = dict(b["world"])
        fl = ["uuid~in~" + _operand(rng, b["req"], allow_nonstring=False)]
        r27 = _requested(fl)
        opts = _opts(rng)
        knownc = [b["local"]] + b["known"]
        inv_known = [cid for cid in knownc if any(u[:5] == cid for u in r27)]
        if not inv_known or {u[:5] for u in r27} == {b["local"]}:
            continue
        victim = rng.choice(inv_known)
        exist = [u for u in r27 if u[:5] == victim and u in world]
        j = rng.randint(0, len(exist))
        sc = {victim: [f"p1.{rng.choice('fr')}"] * j + ["c"]}
        for cid in inv_known:
            if cid not in sc:
                sc[cid] = [_honest_act(rng, 3) for _ in range(rng.randint(0, 3))]
                if rng.random() < 0.15:
                    sc[cid] = ["e" + rng.choice(["0", "503"])]
        out.append(_fmt(b["kind"], b["local"], 100, b["remotes"], opts, fl, b["world"], sc))
    return out


def _sync_cases(rng, n):
    """op slist<N>: federated requests over N >= 2 involved known clusters (plus possibly an unknown one); all N
    per-cluster goroutines have written the request for their first batch before any of them hands it to fn.
    Anything the goroutines share by mistake at that point shows as a backend asked for another cluster's uuids."""
    out = []
    tries = 0
    while len(out) < n and tries < 50 * n:
        tries += 1
        b = _base(rng, "quick")
        fl = ["uuid~in~" + _operand(rng, b["req"], allow_nonstring=False)]
        if rng.random() < 0.2 and len(b["req"]) > 2:
            fl.append("uuid~in~" + _operand(rng, b["req"][1:] + [_uuid(rng, "ggggg", b["kind"])]))
        r27 = _requested(fl)
        knownc = [b["local"]] + b["known"]
        inv_known = [cid for cid in knownc if any(u[:5] == cid for u in r27)]
        if len(inv_known) < 2:
            continue
        opts = _opts(rng)
        sc = _scripts(rng, b, r27, faults=rng.random() < 0.3)
        line = _fmt(b["kind"], b["local"], 100, b["remotes"], opts, fl, b["world"], sc)
        out.append(f"slist{len(inv_known)}" + line[len("list"):])
    return out


def _http_cases(rng, n):
    """op hlist: the request and all remotes go through rpc.Conn -> HTTP -> controller router. Uuid lists short
    (query string) and long (>= 1000 bytes encoded: POST form + X-Http-Method-Override) on the client side and
    on the controller->remote side; honest and dishonest paging; a few unsplittable / failing variants."""
    out = []
    while len(out) < n:
        kind = rng.choice(KINDS)
        local = rng.choice(["aaaaa", "zzzzz"])
        known = rng.sample(["bbbbb", "ccccc", "ddddd"], rng.choice([1, 1, 2]))
        tsp = rng.sample(range(1, 100000), 400)
        world, req = [], []
        for cid in [local] + known:
            big = rng.random() < 0.6
            nobj = rng.randint(24, 45) if big else rng.randint(0, 6)
            objs = [_uuid(rng, cid, kind) for _ in range(nobj)]
            world += [(u, tsp.pop()) for u in objs]
            req += [u for u in objs if rng.random() < 0.9]
            req += [_uuid(rng, cid, kind) for _ in range(rng.choice([0, 0, 1, 3]))]
        r = rng.random()
        if r < 0.1:
            req.append(_uuid(rng, "qqqqq", kind))  # unknown cluster
        if r > 0.9:
            req += [_malformed(rng), req[0]]
        if not req:
            continue
        rng.shuffle(req)
        fl = ["uuid~in~" + ("t:" if rng.random() < 0.5 else "i:") + ",".join(req)]
        if rng.random() < 0.2 and len(req) > 3:
            fl.append("uuid~in~i:" + ",".join(req[1:]))
        opts = dict(count="none", limit=-1, offset=0, order=[], select=None, bypass=False, fwd="")
        r = rng.random()
        if r < 0.05:
            opts["count"] = "exact"
        elif r < 0.1:
            opts["limit"] = 5
        elif r < 0.13:
            fl.insert(0, "name~like~s:a%")
        n27 = len(_requested(fl))
        mx = rng.choice([1000, 1000, n27, max(0, n27 - 1)])
        sc = {}
        wd = dict(world)
        for cid in [local] + known:
            r = rng.random()
            mine = [u for u in req if u[:5] == cid and u in wd]
            if r < 0.45:
                sc[cid] = [f"p{rng.choice([1, 3, 10, 20])}.{rng.choice('fr')}"] * (len(mine) + 2)
            elif r < 0.55 and cid != local:
                sc[cid] = ["p5.f", "e" + rng.choice(["0", "503"])]
            elif r < 0.65 and mine and cid != local:
                sc[cid] = ["p2.f", f"p2.f+{mine[0]}@{wd[mine[0]]}"]
        out.append("h" + _fmt(kind, local, mx, known, opts, fl, world, sc))
    return out


def _login_cases(rng, n):
    """conn.go UserList with Login.LoginCluster set: a known remote, the local cluster, an unknown cluster or a
    malformed id; answers with users of several clusters; bypass; failing backend; failing cache update."""
    out = []
    for _ in range(n):
        b = _base(rng, "quick")
        b["kind"] = "user"
        local, known = b["local"], b["known"]
        login = rng.choice(known + known + [local, "qqqqq", "", "abc", local + "-tpzed-000000000000000"]) if known \
            else rng.choice([local, "qqqqq", ""])
        world = [(f"{u[:5]}-tpzed-{u[12:]}", ts) for u, ts in b["world"]]
        req = [f"{u[:5]}-tpzed-{u[12:]}" if len(u) == 27 else u for u in b["req"]]
        fl = ["uuid~in~" + _operand(rng, req)] if rng.random() < 0.8 else \
            rng.choice([[], ["email~like~s:%@example.com"], ["uuid~=~s:" + req[0], "is_active~=~s:true"]])
        opts = _opts(rng, splittable=rng.random() < 0.7)
        if rng.random() < 0.1:
            opts["bypass"] = True
        sc = {}
        for cid in [local] + known:
            r = rng.random()
            if r < 0.15:
                sc[cid] = ["e" + rng.choice(["0", "401", "503"])]
            elif r < 0.5:
                others = [u for u, _ in world if u[:5] != cid]
                wd = dict(world)
                if others:
                    inj = rng.sample(others, min(len(others), rng.choice([1, 2])))
                    sc[cid] = [f"p{rng.choice('a12')}.{rng.choice('fr')}+" + ",".join(f"{u}@{wd[u]}" for u in inj + inj[:1])]
            else:
                sc[cid] = [_honest_act(rng, 3)]
        if rng.random() < 0.15:
            sc[local + "#upd"] = ["e0"]
        out.append(_fmt("user@" + login, local, rng.choice([0, 2, 100]), b["remotes"], opts, fl, world, sc))
    return out


def _exhaustive(rng):
    """Small scope, thorough tier: local a + remote b (+ unknown z): up to 2 requested uuids per cluster, all
    subsets of existing objects, page size 1/2/all in both orders."""
    out = []
    la = [f"aaaaa-4zz18-{i:015d}" for i in range(2)]
    lb = [f"bbbbb-4zz18-{i:015d}" for i in range(3)]
    z = "yyyyy-4zz18-000000000000000"
    ts = {u: i + 1 for i, u in enumerate(la + lb)}
    opts = dict(count="none", limit=-1, offset=0, order=[], select=None, bypass=False, fwd="")
    for na in range(3):
        for nb in range(4):
            for unk in (False, True):
                req = la[:na] + lb[:nb] + ([z] if unk else [])
                if not req:
                    continue
                fl = ["uuid~in~i:" + ",".join(req)]
                for ea in range(1 << na):
                    for eb in range(1 << nb):
                        world = [(u, ts[u]) for i, u in enumerate(la[:na]) if ea >> i & 1] + \
                                [(u, ts[u]) for i, u in enumerate(lb[:nb]) if eb >> i & 1]
                        for act in ("pa.f", "p1.f", "p1.r", "p2.r", "p2.o1"):
                            for mx in (len(req), len(req) - 1):
                                sc = {"aaaaa": [act] * 3, "bbbbb": [act] * 4}
                                out.append(_fmt("coll", "aaaaa", mx, ["bbbbb"], opts, fl, world, sc))
    # every sequence of 1-3 uuid filters over the subsets of three uuids (local a, remote b1, b2), all objects existing
    u3 = [la[0], lb[0], lb[1]]
    world = [(u, ts[u]) for u in u3]
    subsets = [[u for i, u in enumerate(u3) if m >> i & 1] for m in range(8)]

    def flt(sub, form):
        if form == "=" and len(sub) == 1:
            return "uuid~=~s:" + sub[0]
        return ("uuid~in~t:" if form == "t" else "uuid~in~i:") + ",".join(sub)
    for n in (1, 2, 3):
        for seq in itertools.product(range(8), repeat=n):
            form = "ti="[sum(seq) % 3]
            fl = [flt(subsets[m], form) for m in seq]
            out.append(_fmt("coll", "aaaaa", 10, ["bbbbb"], opts, fl, world, {"bbbbb": ["p1.f"] * 3}))
    return out


def generate(rng, tier):
    n = 1500 if tier == "quick" else 60000
    cases = [_random_case(rng, tier) for _ in range(n)]
    cases += _systematic(rng, 25 if tier == "quick" else 600)
    cases += _cancel_cases(rng, 60 if tier == "quick" else 2000)
    cases += _login_cases(rng, 120 if tier == "quick" else 4000)
    cases += _caller_cancel_cases(rng, 60 if tier == "quick" else 2000)
    cases += _http_cases(rng, 80 if tier == "quick" else 1500)
    cases += _sync_cases(rng, 100 if tier == "quick" else 3000)
    if tier != "quick":
        cases += _exhaustive(rng)
    return cases


def neighbours(case, rng):
    """Same request, other backend behaviours / small edits of the request."""
    f = case.split(" ")
    out = []
    c = parse_case(case)
    a = _analyse(c)
    groups = getattr(a, "groups", {}) or {}
    for _ in range(6):
        sc = {}
        for cid, todo in groups.items():
            acts = []
            for i in range(len(todo) + 1):
                r = rng.random()
                if r < 0.1:
                    acts.append("e0")
                elif r < 0.2:
                    u = rng.choice(todo)
                    acts.append(f"p{rng.choice('01')}.f+{u}@{c.world.get(u, 9999)}")
                else:
                    acts.append(_honest_act(rng, len(todo)))
            sc[cid] = acts
        g = list(f)
        g[8] = ";".join(f"{i}={'|'.join(v)}" for i, v in sc.items()) or "-"
        out.append(" ".join(g))
    g = list(f)
    g[3] = str(rng.choice([0, 1, 2, 5, 100]))
    out.append(" ".join(g))
    g = list(f)
    g[5] = rng.choice(["none/-1/0/-/-/0/-", "exact/-1/0/-/-/0/-", "none/10/0/-/-/0/-", "none/-1/3/-/-/0/-", "none/-1/0/uuid/-/0/-"])
    out.append(" ".join(g))
    g = list(f)
    g[4] = rng.choice(["-", "bbbbb", "bbbbb,ccccc,ddddd,eeeee,fffff"])
    if g[0].startswith("slist"):
        g[0] = "list"  # the rendezvous size is tied to the known clusters
    out.append(" ".join(g))
    return out
