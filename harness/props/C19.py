"""C19 plugin: a user's token secret never leaves the cluster unsalted (see CONVENTIONS.md).

Case line formats are documented in lean/ArvVerif/Driver/C19.lean. All strings travel as hex.
"""
import base64
import binascii
import hashlib
import hmac
import re
import urllib.parse

ID = "C19"
RULE = ("token strings (v2 with secret length 0,1,38-42,50,60, extra path segments, uuid owned by the remote / "
        "home / a third cluster; legacy [0-9a-z]{39..60}; opaque and near-miss strings), remote ids (5 characters, "
        "empty, long), run through SaltToken (salt, twice), the federation token provider with 0-4 tokens and a "
        "stub local lookup answering found / 401 / 403 / other statuses / an error without status (prov, provhttp, provnc), keepstore's remote client (keep, keepget; keepseq/keepgetseq: 2-5 steps on one keepstore process with 2-3 remotes and 1-2 "
        "tokens, locators with one or two +R hints; kproc: 1-4 GET requests on a keepstore process that has just started, observed at the remote clusters' API endpoints (loopback TLS server) and keep services, Authorization header forms OAuth2/Bearer/other/absent/several values, locators with +R hints of configured and unconfigured remotes, +A, +K@ hints, the empty block), the token "
        "discovery (load) and the legacy saltAuthToken on value-level requests with every placement "
        "(OAuth2/Bearer/Basic header, api_token query parameter, form body, cookie), their combinations, other "
        "parameters (keys and values in canonical and in two alternative percent-encodings), malformed segments and several content types; a case is non-trivial when it carries at "
        "least one token; distinct = distinct case line")
ASSUMPTIONS = [
    "F9: any 40-character secret counts as 'already salted' (the code has no hex test); the oracle uses the same reading",
    "requests are value-level: query/form items, Basic credentials and the token cookie are encoded by the Go driver "
    "with net/url, encoding/base64; Go's parsers for them are trusted",
    "a secret shorter than 8 characters is checked by the shape rules only (a byte search for it is meaningless)",
    "the local token lookup (database / APIClientAuthorizationCurrent) is a stub table given in the case",
]
TRUSTED = ["executable HMAC-SHA1 in Lean (ArvVerif/Base/SHA1.lean), compared with Go crypto/hmac through every case and "
           "with Python hmac by the oracle",
           "Go net/http, net/url, mime, encoding/base64 (request parsing and re-encoding)",
           "lib/controller/proxy.go proxy.Do (observed, not modelled: the drivers look at the request after it)"]

OVERLAY_EXTRA = {"lib/controller/localdb/login_pam.go": "harness/overlay_extra/login_pam_stub.go"}

DRIVERS = {
    "auth": {"kind": "gotest", "pkg": "sdk/go/auth", "test": "TestVerifC19"},
    "ctrl": {"kind": "gotest", "pkg": "lib/controller", "test": "TestVerifC19", "shards": 4},
    "fed": {"kind": "gotest", "pkg": "lib/controller/federation", "test": "TestVerifC19", "shards": 4},
    "ks": {"kind": "gotest", "pkg": "services/keepstore", "test": "TestVerifC19", "shards": 2},
}

FORM_CT = "application/x-www-form-urlencoded"
OTHER_HEADERS = ["Connection", "Keep-Alive", "Proxy-Authenticate", "Proxy-Authorization", "TE", "Trailer", "Upgrade",
                 "Accept-Encoding", "Content-Encoding", "Transfer-Encoding", "X-Forwarded-For", "X-Forwarded-Proto", "Via",
                 "Accept", "User-Agent", "X-Http-Method-Override", "X-Request-Id", "X-Keep-Signature", "Cache-Control"]
# Content-Type values a receiver reads as a form / does not read as a form (ASCII only, see notes)
FORM_VARIANTS = [FORM_CT + "; charset=utf-8", FORM_CT + ";charset=UTF-8", FORM_CT + "; charset", FORM_CT + "; a=1; a=2",
                 " Application/X-WWW-Form-URLencoded ;x", FORM_CT + ",x", FORM_CT + ";", "\t" + FORM_CT.upper() + "\r\n"]
NOT_FORM = ["application/x-www-form-encoded", "text/plain", FORM_CT + "x", "text/plain; " + FORM_CT, "x" + FORM_CT,
            "application/x-www-form-urlencoded/", "", "multipart/form-data; boundary=x"]
B36 = "0123456789abcdefghijklmnopqrstuvwxyz"
HEXD = "0123456789abcdef"
PRINT = "".join(chr(c) for c in range(0x21, 0x7f))


def channel(case):
    op = case.split(" ", 1)[0]
    if op in ("salt", "twice", "load"):
        return "auth"
    if op in ("legacy", "legacyw", "legacynf"):
        return "ctrl"
    if op in ("prov", "provhttp", "provnc", "fednew", "provseq", "provhttpseq"):
        return "fed"
    return "ks"


# ----------------------------------------------------------------------------- encoding helpers

def hx(s):
    """standalone field"""
    return binascii.hexlify(s.encode("latin-1")).decode() or "-"


def hxc(s):
    """inside a compound field"""
    return binascii.hexlify(s.encode("latin-1")).decode()


def unhx(h):
    return "" if h in ("-", "") else binascii.unhexlify(h).decode("latin-1")


def unhxlist(h):
    return [] if h == "-" else [unhx(x) for x in h.split(",")]


def items_field(items):
    """items: list of (k, v) or (k, v, sep) or None (= bad segment); sep in '=~^' selects the
    percent-encoding the Go driver uses for the item (same value-level item)"""
    if not items:
        return "-"
    return ",".join("!" if it is None else f"{hxc(it[0])}{it[2] if len(it) > 2 else '='}{hxc(it[1])}" for it in items)


def _style(rng, items):
    """give some items one of the alternative (valid) percent-encodings"""
    out = []
    for it in items:
        if it is None or rng.random() < 0.75:
            out.append(it)
        else:
            out.append((it[0], it[1], rng.choice("~^")))
    return out


def parse_items(field):
    if field == "-":
        return []
    out = []
    for it in field.split(","):
        if it == "!":
            out.append(None)
        else:
            k, v = re.split(r"[=~^]", it)
            out.append((unhx(k), unhx(v)))
    return out


# ----------------------------------------------------------------------------- generators

def _rs(rng, alphabet, n):
    return "".join(rng.choice(alphabet) for _ in range(n))


def _cluster(rng):
    return _rs(rng, B36, 5)


def _remote(rng):
    r = rng.random()
    if r < 0.85:
        return _cluster(rng)
    if r < 0.9:
        return ""
    if r < 0.95:
        return _rs(rng, B36, rng.choice([1, 4, 6, 27]))
    return _rs(rng, PRINT, rng.randint(1, 8))


def _uuid(rng, remote, home):
    r = rng.random()
    if r < 0.3:
        pre = remote
    elif r < 0.65:
        pre = home
    elif r < 0.8:
        pre = _cluster(rng)
    elif r < 0.85:
        return ""
    elif r < 0.9:
        return remote[:max(0, len(remote) - 1)] + "x" + "-gj3su-" + _rs(rng, B36, 15)  # near-miss prefix
    else:
        return _rs(rng, B36 + "-", rng.randint(1, 30))
    return pre + "-gj3su-" + _rs(rng, B36, 15)


def _secret(rng, weird=True):
    r = rng.random()
    n = rng.choice([50, 50, 50, 0, 1, 38, 39, 40, 40, 41, 42, 60, rng.randint(2, 70)])
    if r < 0.55:
        return _rs(rng, B36, n)
    if r < 0.6:
        # around the "looks like a salt" boundary: k hex digits followed by a base36 tail
        k = rng.choice([39, 40, 40, 41])
        return _rs(rng, HEXD, k) + rng.choice(["", "z", _rs(rng, B36, 10), _rs(rng, "ghijklmnopqrstuvwxyz", 1) + _rs(rng, B36, 9)])
    if r < 0.8:
        return _rs(rng, HEXD, n)
    if r < 0.9 or not weird:
        return _rs(rng, B36 + "ABCXYZ_-", n)
    return _rs(rng, PRINT.replace("/", ""), n)


def _v2(rng, remote, home, weird=True):
    t = "v2/" + _uuid(rng, remote, home) + "/" + _secret(rng, weird)
    if rng.random() < 0.15:
        t += "/" + _rs(rng, B36 + "/", rng.randint(0, 12))
    return t


def _legacy(rng):
    return _rs(rng, B36, rng.choice([39, 40, 41, 41, 42, 50, 50, 60]))


def _opaque(rng, remote):
    c = rng.randrange(16)
    fixed = ["", "v2", "v2/", "v2//", "v2/abc", "v2/" + remote + "-gj3su-000000000000000", "/v2/u/" + "s" * 50,
             "V2/u/" + "s" * 50, "v3/u/" + "s" * 50, "v2 /u/s", "a/b/c", "//"]
    if c < len(fixed):
        return fixed[c]
    if c == 12:
        return "eyJ" + _rs(rng, B36 + "ABCDEFXYZ._-", rng.randint(20, 80))     # OIDC-like
    if c == 13:
        return _rs(rng, B36, 45) + rng.choice(["\n", "A", "-", " "])             # legacy near-miss
    if c == 14:
        return _rs(rng, B36.upper(), 45)
    return _rs(rng, PRINT, rng.randint(1, 60))


def _token(rng, remote, home, weird=True):
    r = rng.random()
    if r < 0.6:
        return _v2(rng, remote, home, weird)
    if r < 0.8:
        return _legacy(rng)
    t = _opaque(rng, remote)
    if not weird and (not t or any(c not in PRINT for c in t)):
        return "opaque" + _rs(rng, B36, 10)
    return t


def _lookup(rng, tok, remote, home):
    r = rng.random()
    if r < 0.45:
        u = (home if rng.random() < 0.8 else _cluster(rng)) + "-gj3su-" + _rs(rng, B36, 15)
        a = tok if rng.random() < 0.9 else _rs(rng, B36, rng.choice([40, 50]))
        return f"f.{hxc(u)}.{hxc(a)}"
    if r < 0.6:
        return f"f.{hxc(remote + '-gj3su-' + _rs(rng, B36, 15))}.{hxc(tok)}"
    if r < 0.85:
        return "n"
    if r < 0.88:
        return "x"
    return "e" + str(rng.choice([403, 403, 403, 400, 404, 422, 500, 502, 503]))


def _other_params(rng, n):
    out = []
    for _ in range(n):
        k = rng.choice(["filters", "select", "count", "limit", "a", "z", "_method", "api_tokens", "Api_token", "cluster_id"])
        v = rng.choice(["", "1", "none", '[["uuid","=","x"]]', "a b&c=d", "%41", "é"])
        out.append((k, v))
    return out


def _gen_request(rng, remote, home, placements=None):
    """returns (M, A, Q, K, T, B, D fields, n tokens)"""
    if placements is None:
        r = rng.random()
        allp = ["oauth2", "bearer", "basic", "query", "form", "cookie"]
        if r < 0.08:
            placements = []
        elif r < 0.7:
            placements = [rng.choice(allp)]
        else:
            placements = rng.sample(allp, rng.choice([2, 2, 3]))
            if "oauth2" in placements and "bearer" in placements:
                placements.remove("oauth2")
            if "basic" in placements and ("bearer" in placements or "oauth2" in placements):
                placements.remove("basic")
    same = _token(rng, remote, home)
    toks = {p: (same if rng.random() < 0.4 else _token(rng, remote, home)) for p in placements}
    method = rng.choice(["POST", "POST", "PUT", "PATCH"]) if "form" in placements and rng.random() < 0.8 \
        else rng.choice(["GET", "GET", "POST", "PUT", "PATCH", "DELETE", "HEAD"])
    # Authorization
    A = "-"
    # an Authorization value is <scheme> SP <everything else>: sometimes the token is followed by
    # further text, or the separator is not a single space
    tail = rng.choice(["", "", "", "", "", "", " junk", " ;q=1", ", Bearer abc", " ", "\t"])
    sep = rng.choice([" ", " ", " ", " ", " ", " ", " ", " ", "  ", "\t"])
    if "oauth2" in toks:
        A = "p." + hxc("OAuth2" + sep + toks["oauth2"] + tail)
        toks["oauth2"] = (sep[1:] + toks["oauth2"] + tail) if sep[0] == " " else None
    elif "bearer" in toks:
        A = "p." + hxc("Bearer" + sep + toks["bearer"] + tail)
        toks["bearer"] = (sep[1:] + toks["bearer"] + tail) if sep[0] == " " else None
    elif "basic" in toks:
        A = f"b.{hxc(rng.choice(['', 'none', 'user']))}.{hxc(toks['basic'])}"
    elif rng.random() < 0.15:
        A = "p." + hxc(rng.choice(["Bearer", "bearer x", "Basic !!!", "Token abc", "OAuth2", "Digest a=b", " Bearer x", ""]))
    # query
    q = _other_params(rng, rng.choice([0, 0, 1, 2, 3]))
    if "query" in toks:
        q.insert(rng.randint(0, len(q)), ("api_token", toks["query"]))
        if rng.random() < 0.15:
            q.insert(rng.randint(0, len(q)), ("api_token", _token(rng, remote, home)))
    if rng.random() < 0.06:
        q.insert(rng.randint(0, len(q)), None)
    # cookie
    K = "-"
    if "cookie" in toks:
        K = "t." + hxc(toks["cookie"])
    elif rng.random() < 0.1:
        K = "r." + hxc(rng.choice(["session=abc", "arvados_api_token=!!!", "arvados_api_token=", "a=b; c=d"]))
    # body + content type
    b = None
    T = "-"
    if "form" in toks:
        b = _other_params(rng, rng.choice([0, 1, 2]))
        b.insert(rng.randint(0, len(b)), ("api_token", toks["form"]))
        if rng.random() < 0.1:
            b.insert(rng.randint(0, len(b)), ("api_token", _token(rng, remote, home)))
        if rng.random() < 0.05:
            b.insert(rng.randint(0, len(b)), None)
        r = rng.random()
        T = hx(FORM_CT if r < 0.7 else rng.choice(FORM_VARIANTS + NOT_FORM))
        B = "f." + items_field(_style(rng, b))
    else:
        r = rng.random()
        if r < 0.5:
            B = "-"
            T = rng.choice(["-", "-", hx(FORM_CT), hx("application/json")])
        elif r < 0.8:
            b = _other_params(rng, rng.choice([1, 2, 3]))
            if rng.random() < 0.05:
                b.insert(rng.randint(0, len(b)), None)
            B = "f." + items_field(_style(rng, b))
            T = hx(rng.choice([FORM_CT, FORM_CT, FORM_CT] + FORM_VARIANTS + NOT_FORM))
        else:
            B = "o." + hxc(rng.choice(['{"a":1}', "x", '{"filters":[]}']))
            T = rng.choice(["-", hx("application/json"), hx("application/octet-stream")])
    # database rows
    rows = []
    for t in dict.fromkeys(toks.values()):
        if t is None or t.startswith("v2/") or rng.random() < 0.35:
            continue
        r = rng.random()
        user = (home if r < 0.7 else remote if r < 0.9 else _cluster(rng)) + "-tpzed-" + _rs(rng, B36, 15)
        aca = (home if rng.random() < 0.8 else remote) + "-gj3su-" + _rs(rng, B36, 15)
        rows.append(f"{hxc(t)}={hxc(aca)}={hxc(user)}")
    D = ",".join(rows) or "-"
    return method, A, items_field(_style(rng, q)), K, T, B, D


KHASH = "acbd18db4cc2f85cedef654fccc4a4d8"
KEMPTY = "d41d8cd98f00b204e9800998ecf8427e"
KSIG = "0123456789abcdef0123456789abcdef01234567@5f000000"


def _gen_kproc(rng, home):
    """GET requests on a freshly started keepstore: what reaches the remote clusters' API endpoints
    and keep services. Tokens stay printable (they may travel in a real HTTP header)."""
    cfg = []
    while len(cfg) < rng.choice([1, 2, 2, 3]):
        c = _cluster(rng)
        if c not in cfg:
            cfg.append(c)
    toks = [_token(rng, rng.choice(cfg), home, weird=False) for _ in range(rng.choice([1, 1, 2]))]
    if rng.random() < 0.75:
        toks[0] = _v2(rng, rng.choice(cfg), home, weird=False)
    steps = []
    for _ in range(rng.choice([1, 2, 2, 3, 4])):
        t = rng.choice(toks)
        r = rng.random()
        if r < 0.72:
            auths = [rng.choice(["OAuth2", "Bearer"]) + rng.choice([" ", " ", " ", " ", "  ", "\t", " \t "]) + t]
        elif r < 0.8:
            # several Authorization header values: only the first one counts
            auths = [rng.choice(["OAuth2 ", "Bearer "]) + t, "Bearer " + _token(rng, cfg[0], home, weird=False)]
            if rng.random() < 0.5:
                auths.reverse()
        elif r < 0.86:
            auths = [rng.choice(["bearer ", "Basic ", "Token ", "OAuth2", "Bearer", "OAuth2x ", " Bearer "]) + t]
        elif r < 0.9:
            auths = [rng.choice(["", "Bearer ", "OAuth2  "])]
        else:
            auths = None
        hints = ["3"] if rng.random() < 0.9 else []
        hash_ = KHASH
        if rng.random() < 0.06:
            hash_, hints = KEMPTY, [rng.choice(["0", "0", "3"])]
        r = rng.random()
        rem = rng.choice(cfg)
        if r < 0.6:
            hints.append("R" + rem + "-" + KSIG)
        elif r < 0.72:
            other = rng.choice(cfg)
            hints += ["R" + other + "-" + KSIG, "R" + rem + "-" + KSIG]
        elif r < 0.8:
            hints.append("R" + _cluster(rng) + "-" + KSIG)                   # remote not configured
            if rng.random() < 0.5:
                hints.insert(len(hints) - 1, "R" + rem + "-" + KSIG)
        elif r < 0.88:
            # near misses of the +R hint shape
            hints.append(rng.choice(["R" + rem + "-", "R" + rem[:4] + "-x" + KSIG, "R" + rem + "x-" + KSIG, "r" + rem + "-" + KSIG,
                                     "R" + rem + "-x", "R", ""]))
            if rng.random() < 0.5:
                hints.append("R" + rem + "-" + KSIG)
        elif r < 0.93:
            hints += [rng.choice(["A" + KSIG, "A", "AR" + rem + "-" + KSIG]), "R" + rem + "-" + KSIG]
        else:
            pass                                                            # no remote hint at all
        r = rng.random()
        if r < 0.10:
            # +K@<cluster>: a keep proxy of another cluster, of the same cluster, near misses
            k = rng.choice(["K@" + _cluster(rng), "K@" + _cluster(rng), "K@" + rem, "K@" + rem[:4], "K@" + rem + "x", "k@" + rem])
            hints.insert(rng.randint(0, len(hints)), k)
        elif r < 0.16:
            hints.insert(rng.randint(0, len(hints)), "K@zrmte-bi6l4-00000000000000" + rng.choice("012"))
        elif r < 0.2:
            hints.append(rng.choice(["Zfoo", "B" + KSIG, "x"]))
        steps.append((",".join(hxc(a) for a in auths) if auths is not None else "-") + ":" + "+".join(hxc(x) for x in [hash_] + hints))
    return "kproc " + ",".join(hxc(c) for c in cfg) + " " + ";".join(steps)


def generate(rng, tier):
    scale = 1 if tier == "quick" else 25
    cases = []
    home = "zhome"
    for _ in range(600 * scale):
        remote = _remote(rng)
        cases.append(f"salt {hx(_token(rng, remote, home))} {hx(remote)}")
    for _ in range(200 * scale):
        r1 = _remote(rng)
        r2 = r1 if rng.random() < 0.3 else _remote(rng)
        cases.append(f"twice {hx(_token(rng, r1, home))} {hx(r1)} {hx(r2)}")
    for _ in range(200 * scale):
        remote = _cluster(rng)
        m, A, Q, K, T, B, _ = _gen_request(rng, remote, home)
        cases.append(f"load {m} {A} {Q} {K} {T} {B}")
    for _ in range(800 * scale):
        remote = _cluster(rng) if rng.random() < 0.9 else _remote(rng)
        m, A, Q, K, T, B, D = _gen_request(rng, remote, home)
        cases.append(f"legacy {hx(remote)} {m} {A} {Q} {K} {T} {B} {D}")
    for i in range(320 * scale):
        # the whole forwarding path with further request headers (some of them hop-by-hop headers
        # proxy.Do drops, some the proxy headers it rewrites); a few with an unconfigured remote
        remote = _cluster(rng)
        m, A, Q, K, T, B, D = _gen_request(rng, remote, home)
        hs = {}
        for _ in range(rng.choice([0, 1, 2, 3, 4])):
            n = rng.choice(OTHER_HEADERS)
            hs[n] = rng.choice(["", "1", "close", "gzip", "10.1.2.3", "https", "http", "1.1 edge", "x y", "é"])
        H = ",".join(f"{hxc(k)}={hxc(v)}" for k, v in hs.items()) or "-"
        op = "legacynf" if i % 16 == 15 else "legacyw"
        cases.append(f"{op} {hx(remote)} {m} {A} {Q} {K} {T} {B} {D} {H}")
    for _ in range(300 * scale):
        remote = _remote(rng)
        toks = [_token(rng, remote, home) for _ in range(rng.choice([0, 1, 1, 1, 2, 2, 3, 4]))]
        spec = ";".join(f"{hxc(t)}:{_lookup(rng, t, remote, home)}" for t in toks) or "-"
        cases.append(f"prov {hx(remote)} {spec}")
    for _ in range(60 * scale):
        remote = _cluster(rng)
        toks = [_token(rng, remote, home, weird=False) for _ in range(rng.choice([0, 1, 1, 2, 3]))]
        spec = ";".join(f"{hxc(t)}:{_lookup(rng, t, remote, home)}" for t in toks) or "-"
        cases.append(f"provhttp {hx(remote)} {spec}")
    for _ in range(100 * scale):
        # one incoming request (one credentials object) forwarded to 2-4 remotes in sequence, some
        # remotes repeated
        remotes = [_cluster(rng) for _ in range(rng.choice([2, 2, 3]))]
        order = [rng.choice(remotes) for _ in range(rng.choice([2, 3, 4]))]
        if len(set(order)) == 1:
            order[-1] = next(r for r in remotes if r != order[0]) if len(set(remotes)) > 1 else order[-1]
        http = rng.random() < 0.35
        toks = [_token(rng, rng.choice(remotes), home, weird=not http) for _ in range(rng.choice([1, 1, 2, 3]))]
        if not any(_classify(t)[0] == "v2" for t in toks):
            toks[0] = _v2(rng, rng.choice(remotes), home, weird=False)
        look = {t: _lookup(rng, t, order[0], home) for t in toks}
        spec = ";".join(f"{hxc(t)}:{look[t]}" for t in toks)
        cases.append(("provhttpseq " if http else "provseq ") + ";".join(hxc(r) for r in order) + " " + spec)
    for _ in range(40 * scale):
        # the provider as wired by federation.New (real local backend, unreachable)
        remote = _cluster(rng)
        toks = [_token(rng, remote, home, weird=False) for _ in range(rng.choice([1, 1, 2, 3]))]
        toks = [t if rng.random() < 0.1 or _classify(t)[0] != "legacy" else _v2(rng, remote, home, weird=False) for t in toks]
        cases.append(f"fednew {hx(remote)} " + ";".join(f"{hxc(t)}:x" for t in toks))
    cases.append(f"provnc {hx(_cluster(rng))}")
    for _ in range(150 * scale):
        remote = _remote(rng)
        cases.append(f"keep {hx(remote)} {hx(_token(rng, remote, home))}")
    for _ in range(60 * scale):
        remote = _cluster(rng)
        t = _token(rng, remote, home, weird=False)
        cases.append(f"keepget {hx(remote)} {hx(t)}")
    for _ in range(120 * scale):
        # several steps on ONE keepstore remoteProxy: the same token meets different remotes and
        # the same remote different tokens, in every order
        remotes = [_cluster(rng) for _ in range(rng.choice([2, 2, 3]))]
        toks = [_token(rng, rng.choice(remotes), home, weird=False) for _ in range(rng.choice([1, 1, 2]))]
        if rng.random() < 0.7 and not any(_classify(t)[0] == "v2" for t in toks):
            toks[0] = _v2(rng, rng.choice(remotes), home, weird=False)
        steps = []
        getseq = rng.random() < 0.5
        for _ in range(rng.choice([2, 3, 4, 5])):
            t = rng.choice(toks)
            if getseq:
                hints = rng.sample(remotes, 2) if rng.random() < 0.15 else [rng.choice(remotes)]
                steps.append("+".join(hxc(r) for r in hints) + ":" + hxc(t))
            else:
                steps.append(hxc(rng.choice(remotes)) + ":" + hxc(t))
        cases.append(("keepgetseq " if getseq else "keepseq ") + ";".join(steps))
    for _ in range(140 * scale):
        cases.append(_gen_kproc(rng, home))
    rng.shuffle(cases)
    return cases


# ----------------------------------------------------------------------------- compare (model = implementation)

def _kv(s):
    """'fwd A=.. Q=..' -> (head, dict)"""
    parts = s.split(" ")
    head = parts[0]
    d = {}
    for p in parts[1:]:
        if "=" in p:
            k, v = p.split("=", 1)
            d[k] = v
    return head, d


def _auth_in(A):
    if A == "-":
        return []
    if A.startswith("p."):
        return [unhx(A[2:])]
    u, p = A[2:].split(".")
    return ["Basic " + base64.b64encode((unhx(u) + ":" + unhx(p)).encode("latin-1")).decode()]


def _parse_raw_items(raw):
    return urllib.parse.parse_qsl(raw, keep_blank_values=True, encoding="latin-1", errors="strict")


def _items_match(model_field, raw_in, raw_out):
    if model_field == "same":
        return raw_in == raw_out
    if not model_field.startswith("re:"):
        return False
    want = [it for it in parse_items(model_field[3:])]
    try:
        got = _parse_raw_items(raw_out)
    except Exception:
        return False
    return got == want


def _strip_token_cookie(values):
    """Cookie header values after removing every cookie named arvados_api_token (simple cookies only)"""
    kept = []
    for v in values:
        for part in v.split(";"):
            part = part.strip()
            if not part:
                continue
            name, _, val = part.partition("=")
            if name != "arvados_api_token":
                kept.append(name + "=" + val)
    return ["; ".join(kept)] if kept else []


def compare(case, impl, model):
    op = case.split(" ", 1)[0]
    if model is None:
        return True
    if op in ("legacy", "legacyw", "legacynf"):
        f = case.split(" ")
        ih, iv = _kv(impl)
        mh, mv = _kv(model)
        if mh == "notfound" or ih == "notfound":
            return impl == model
        if mh == "panic":
            return impl.startswith("panic ") and "index out of range" in impl
        if mh == "err":
            return impl == model + " n=0"
        if mh != "fwd" or ih != "fwd":
            return False
        got_auth = unhxlist(iv.get("A", "-"))
        if mv["A"] == "same":
            if got_auth != _auth_in(f[3]):
                return False
        elif got_auth != [unhx(mv["A"])]:
            return False
        if not _items_match(mv["Q"], unhx(iv["Qi"]), unhx(iv["Q"])):
            return False
        if not _items_match(mv["B"], unhx(iv["Bi"]), unhx(iv["B"])):
            return False
        want_cookie = []
        if f[5].startswith("t."):
            want_cookie = ["arvados_api_token=" + base64.urlsafe_b64encode(unhx(f[5][2:]).encode("latin-1")).decode()]
        elif f[5].startswith("r."):
            want_cookie = [unhx(f[5][2:])]
        if mv.get("K") == "stripped":
            want_cookie = _strip_token_cookie(want_cookie)
        elif mv.get("K") != "same":
            return False
        if unhxlist(iv.get("K", "-")) != want_cookie:
            return False
        if op == "legacy":
            return True
        # the remaining outgoing headers, the proxy headers, destination and method
        if sorted(iv.get("H", "-").split(",")) != sorted(mv.get("H", "-").split(",")):
            return False
        if unhxlist(iv["XFF"]) != [unhx(mv["XFF"])] or unhxlist(iv["XFP"]) != [unhx(mv["XFP"])]:
            return False
        if unhxlist(iv["VIA"]) != unhxlist(mv["VIA"]):
            return False
        return unhx(iv["U"]) == "https://remote.example/arvados/v1/workflows/zrmte-7fd4e-000000000000000" and iv["M"] == f[2]
    if op in ("provseq", "provhttpseq"):
        ms, is_ = model.split("|"), impl.split("|")
        if len(ms) != len(is_) or ms[-1] != is_[-1]:
            return False
        sub = "prov x x" if op == "provseq" else "provhttp x x"
        return all(compare(sub, i, m) for m, i in zip(ms[:-1], is_[:-1]))
    if op in ("provhttp", "fednew"):
        if not model.startswith("ok "):
            return impl == model
        mh, mv = _kv(model)
        toks = unhxlist(model.split(" ")[1])
        if not impl.startswith("ok "):
            return False
        _, iv = _kv(impl)
        return unhxlist(iv["auth"]) == [unhx(mv["auth"])] and unhxlist(iv["reader"]) == toks[1:]
    if op == "keepgetseq":
        ms, is_ = model.split(";"), impl.split(";")
        steps = case.split(" ")[1].split(";")
        if len(ms) != len(is_) or len(ms) != len(steps):
            return False
        for m, i, st in zip(ms, is_, steps):
            if m.startswith("refused"):
                if i != m:
                    return False
                continue
            # one destination: the remote of the last hint, with the model's Authorization
            last = st.split(":")[0].split("+")[-1]
            if i != m + "@" + last:
                return False
        return True
    if op == "kproc":
        return impl.split(" X=")[0] == model
    if op == "keepget":
        if model.startswith("refused"):
            return impl == model
        if not impl.startswith("sent "):
            return False
        return impl.split(" ")[1] == model.split(" ")[1] and " status=404 " in impl
    return impl == model


# ----------------------------------------------------------------------------- oracle (property text, implementation output only)

RE_LEGACY = re.compile(r"\A[0-9a-z]{41,}\Z")


def _is_form(ct):
    """how a receiver decides that a body is a form: media type = text before the parameters"""
    return re.split(r"[;,]", ct, maxsplit=1)[0].strip(" \t\n\r\v\f").lower() == FORM_CT


def _classify(t):
    """('v2', uuid, secret) | ('legacy',) | ('other',)"""
    parts = t.split("/")
    if len(parts) >= 3 and parts[0] == "v2":
        return ("v2", parts[1], parts[2])
    if RE_LEGACY.match(t):
        return ("legacy",)
    return ("other",)


def _salted(uuid, secret, remote):
    return "v2/" + uuid + "/" + hmac.new(secret.encode("latin-1"), remote.encode("latin-1"), hashlib.sha1).hexdigest()


def _views(raw):
    """the byte string itself plus what a receiver can decode from it"""
    out = [raw]
    try:
        out.append(urllib.parse.unquote_plus(raw, encoding="latin-1"))
    except Exception:
        pass
    for m in re.finditer(r"arvados_api_token=([A-Za-z0-9_=-]+)", raw):
        try:
            out.append(base64.urlsafe_b64decode(m.group(1)).decode("latin-1"))
        except Exception:
            pass
    for m in re.finditer(r"Basic ([A-Za-z0-9+/=]+)", raw):
        try:
            out.append(base64.b64decode(m.group(1)).decode("latin-1"))
        except Exception:
            pass
    return out


def _secret_of(t):
    """the part of a user token that must not leave unsalted, or None"""
    c = _classify(t)
    if c[0] == "v2" and len(c[2]) != 40 and len(c[2]) >= 8:
        return c[2]
    return None


def _leaks(secret, raw):
    return any(secret in v for v in _views(raw))


def _expect_one(t, remote, lookup):
    """what the property text says is forwarded for token t: ('tok', s) | ('error',) | ('any',)"""
    c = _classify(t)
    if c[0] == "v2":
        if len(c[2]) != 40:
            return ("tok", _salted(c[1], c[2], remote))
        return ("tok", t)          # already salted: forwarded as it is (provider) -- callers may also refuse
    if c[0] == "other":
        return ("tok", t)
    # legacy
    if lookup is None or lookup == "n":
        return ("tok", t)
    if lookup == "e":
        return ("error",)
    u, a = lookup
    if u.startswith(remote):
        return ("tok", t)
    return ("any",)               # resolved locally: checked separately (salted form of the v2 rendering)


def _oracle_salt(t, remote, impl):
    c = _classify(t)
    if c[0] == "v2":
        if len(c[2]) != 40:
            want = "ok " + hx(_salted(c[1], c[2], remote))
            if impl != want:
                return f"SaltToken did not return v2/<uuid>/<hex hmac-sha1(secret, remote)>: got {impl}"
        elif c[1].startswith(remote):
            if impl != "ok " + hx(t):
                return "a token already salted for the remote was not returned as it is"
        elif impl != "err salted":
            return "a token already salted for another cluster was not reported as already salted"
    elif impl.startswith("ok"):
        return "a token that is not in v2 format was 'salted'"
    s = _secret_of(t)
    if s and impl.startswith("ok") and s in unhx(impl.split(" ")[1]):
        return "the unsalted secret occurs in the salted token"
    return None


def _parse_lookup(l):
    if l == "n":
        return "n"
    if l == "x" or l.startswith("e"):
        return "e"      # any failure other than 401 (403 scoped token, 5xx, no status)
    u, a = l[2:].split(".")
    return (unhx(u), unhx(a))


def _oracle_prov(case, impl):
    f = case.split(" ")
    remote = unhx(f[1])
    specs = [] if f[2] == "-" else [s.split(":") for s in f[2].split(";")]
    toks = [unhx(s[0]) for s in specs]
    table = {}
    for s in specs:
        table.setdefault(unhx(s[0]), _parse_lookup(s[1]))
    if impl.startswith(("panic", "unexpected", "error-after-request", "bad-op", "own-cluster", "non-proxy", "no-rpc-conn")):
        return "driver could not observe the provider: " + impl[:200]
    if not impl.startswith("ok"):
        return None     # nothing is forwarded
    if f[0] in ("provhttp", "fednew"):
        _, iv = _kv(impl)
        auths = unhxlist(iv["auth"])
        dump = unhx(iv["X"])
        if len(auths) != 1 or not auths[0].startswith("Bearer "):
            return "outgoing request does not carry exactly one Bearer authorization"
        out = ([auths[0][7:]] if toks else []) + unhxlist(iv["reader"])
        if not toks and auths[0] != "Bearer -":
            return "a token was sent although none was provided"
    else:
        out = unhxlist(impl.split(" ")[1])
        dump = "\n".join(out)
    if len(out) != len(toks):
        return f"{len(toks)} tokens in, {len(out)} tokens out"
    for t, o in zip(toks, out):
        exp = _expect_one(t, remote, table.get(t))
        if exp[0] == "tok" and o != exp[1]:
            return f"token {t!r} forwarded as {o!r}, expected {exp[1]!r}"
        if exp[0] == "error":
            return "the local lookup of a legacy token failed (status other than 401) but tokens were forwarded"
        if exp[0] == "any":
            u, a = table[t]
            want = _expect_one("v2/" + u + "/" + a, remote, None)
            if o != want[1]:
                return f"legacy token resolved to v2/{u}/… was forwarded as {o!r}, expected {want[1]!r}"
            if len(t) >= 8 and t in dump and not (len(a) == 40):
                return "a locally resolved legacy token occurs unsalted in what is forwarded"
    for t in toks:
        s = _secret_of(t)
        if s and _leaks(s, dump):
            return f"the unsalted secret of {t!r} occurs in what is forwarded"
    return None


def _placed_tokens(f):
    """tokens of a legacy/load request in discovery order, with their placement"""
    A, Q, K, T, B = f
    out = []
    if A.startswith("p."):
        v = unhx(A[2:])
        sp = v.split(" ", 1)
        if len(sp) == 2 and sp[0] in ("OAuth2", "Bearer"):
            out.append(("header", sp[1]))
    elif A.startswith("b."):
        out.append(("basic", unhx(A[2:].split(".")[1])))
    for it in parse_items(Q):
        if it and it[0] == "api_token":
            out.append(("query", it[1]))
    if K.startswith("t.") and unhx(K[2:]):
        out.append(("cookie", unhx(K[2:])))
    ct = unhx(T) if T != "-" else ""
    if B.startswith("f.") and _is_form(ct):
        # a form body: only its first api_token value is a credential (and only if non-empty),
        # but every api_token value in it is searched for by the secrecy rule
        first = True
        for it in parse_items(B[2:]):
            if it and it[0] == "api_token":
                out.append(("form" if first and it[1] else "form-extra", it[1]))
                first = False
    return out


def _oracle_legacy(case, impl):
    f = case.split(" ")
    remote, method = unhx(f[1]), f[2]
    placed = _placed_tokens(f[3:8])
    db = {}
    if f[8] != "-":
        for row in f[8].split(","):
            t, a, u = row.split("=")
            db.setdefault(unhx(t), (unhx(a), unhx(u)))
    if impl.startswith(("unexpected", "bad-op")):
        return "driver could not observe the request: " + impl[:200]
    if not impl.startswith("fwd"):
        if impl.startswith("err") and not impl.endswith("n=0"):
            return "an error was returned but a request was sent"
        return None     # error or panic: nothing is forwarded
    _, iv = _kv(impl)
    dump = unhx(iv["X"])
    auths = unhxlist(iv["A"])
    problems = []
    # form-body tokens count only when the body is actually read as a form by the method
    found = [p for p in placed if p[0] != "form-extra"]
    passthrough = None
    if found:
        t = found[0][1]
        c = _classify(t)
        want = None
        if c[0] == "v2" and len(c[2]) != 40:
            want = _salted(c[1], c[2], remote)
        elif c[0] == "v2":
            want = t
        elif t in db:
            aca, user = db[t]
            if user.startswith(remote):
                want = t
            elif c[0] == "legacy":
                want = _expect_one("v2/" + aca + "/" + t, remote, None)[1]
        else:
            want = t
        if want is not None and want == t:
            # not in Arvados format / unknown legacy token / 40-character secret (F9): as it is
            passthrough = t
        if want is not None and auths != ["Bearer " + want]:
            problems.append(("header", f"Authorization is {auths!r}, expected ['Bearer {want}']"))
        try:
            if any(k == "api_token" for k, _ in _parse_raw_items(unhx(iv["Q"]))):
                problems.append(("query", "api_token is still in the forwarded query string"))
        except Exception:
            pass
    # secrecy: no user secret anywhere in the forwarded bytes (all placements, all tokens)
    for where, t in placed:
        s = _secret_of(t)
        if s is None and _classify(t)[0] == "legacy" and t in db and not db[t][1].startswith(remote):
            s = t   # a legacy token that is resolved and salted locally must not travel as it is
            if found and found[0][1] != t:
                s = None    # only the first token is resolved; others are simply dropped/kept
        if not s:
            continue
        # a body that is not declared as a form is payload, not a token placement
        body_is_form = _is_form(unhx(f[6]) if f[6] != "-" else "")
        head = dump.split("\n\n", 1)[0]
        if passthrough is not None:
            # the first credential is a string the property says to forward as it is (not in Arvados
            # format / unknown legacy token / already-40 secret): its verbatim copy in the rebuilt header is not
            # a leak, even if it happens to contain the secret of another credential of the request
            head = head.replace("Authorization: Bearer " + passthrough, "Authorization: Bearer <passed through>")
        if body_is_form and (s in unhx(iv["B"]) or s in urllib.parse.unquote_plus(unhx(iv["B"]), encoding="latin-1")):
            problems.append(("body", "an unsalted user secret is in the forwarded form body"))
        elif any(s in v for k in unhxlist(iv["K"]) for v in _views(k)):
            problems.append(("cookie", "an unsalted user secret is in the forwarded Cookie header"))
        elif _leaks(s, head):
            problems.append(("dump", f"the unsalted secret of the {where} token occurs in the forwarded request line or headers"))
    if not problems:
        return None
    seen = []
    for p in problems:
        if p not in seen:
            seen.append(p)
    return " | ".join(f"[{k}] {m}" for k, m in seen)


RE_KEEP_AUTH = re.compile(r"\A(OAuth2|Bearer)[\t\n\f\r ]+([^\n]*)")
RE_RHINT = re.compile(r"\AR(.{5})-.+\Z", re.S)


def _kproc_steps(case):
    """[(token or '', [remote ids of well-formed +R hints], hints)] per step of a kproc case"""
    out = []
    for st in case.split(" ")[2].split(";"):
        a, l = st.split(":")
        auths = None if a == "-" else [unhx(x) for x in a.split(",")]
        parts = [unhx(x) for x in l.split("+")]
        tok = ""
        if auths:
            m = RE_KEEP_AUTH.match(auths[0])
            if m:
                tok = m.group(2)
        out.append((tok, [RE_RHINT.match(h).group(1) for h in parts[1:] if RE_RHINT.match(h) and not h.startswith("A")], parts[1:]))
    return out


def _oracle_kproc(case, impl):
    """Property text on what a keepstore process sends to other clusters: a user's token reaches
    remote cluster R only salted for R, whatever endpoint of R it goes to and whichever request of
    the process's life it is; nothing else derived from the caller's credentials leaves at all."""
    f = case.split(" ")
    cfg = [unhx(x) for x in f[1].split(",")] if f[1] != "-" else []
    steps = _kproc_steps(case)
    main = impl.split(" C=")[0]
    outs = main.split(";")
    if " C=" not in impl or len(outs) != len(steps):
        return "driver could not observe the process: " + impl[:200]
    _, iv = _kv("x " + impl.split(" ", 1)[1]) if " " in impl else ("", {})
    held = unhxlist(iv.get("C", "-"))
    all_tokens = [t for t, _, _ in steps if t]
    late = None
    for n, ((t, rhints, hints), o) in enumerate(zip(steps, outs)):
        status, _, evs = o.partition("/")
        c = _classify(t)
        saltable = c[0] == "v2" and len(c[2]) != 40
        sent_block = False
        for ev in ([] if evs == "-" else evs.split("|")):
            p = ev.split("@")
            kind = p[0]
            if kind in ("d", "s", "o"):
                # the remote cluster's API endpoint: service discovery needs no user credential
                if p[1].startswith("unknown"):
                    return f"request {n + 1}: an API request went to an address of no configured remote"
                auths = unhxlist(p[-1])
                for a in auths:
                    for ut in all_tokens:
                        cu = _classify(ut)
                        sec = _secret_of(ut) or (ut if cu[0] == "legacy" else None)
                        if sec and any(sec in v for v in _views(a)):
                            return (f"request {n + 1}: a request to the API endpoint of remote {unhx(p[1])!r} carries a caller's "
                                    f"unsalted token: {a!r}")
                        if cu[0] == "v2" and ut and ut in a:
                            return f"request {n + 1}: a request to the API endpoint of remote {unhx(p[1])!r} carries a caller's token"
                continue
            if kind != "b":
                return "driver could not observe the request: " + ev[:200]
            sent_block = True
            dest, auths = p[1], unhxlist(p[3])
            if c[0] != "v2":
                return f"request {n + 1}: a block request was sent with a token that cannot be salted"
            if dest.startswith("r."):
                r = unhx(dest[2:])
                if r not in rhints or r not in cfg:
                    return f"request {n + 1}: a block request went to remote {r!r} that the locator does not name"
                want = _salted(c[1], c[2], r) if saltable else t
                if auths != ["OAuth2 " + want]:
                    return (f"request {n + 1}: remote {r!r} received {auths!r}, expected the token salted for {r!r}: "
                            f"['OAuth2 {want}']")
            else:
                host = unhx(dest[2:])
                m = re.match(r"\Ahttps://keep\.(.{5})\.arvadosapi\.com\Z", host)
                if not m:
                    return f"request {n + 1}: a block request carrying the caller's token went to {host!r}"
                x = m.group(1)
                want = _salted(c[1], c[2], x) if saltable else t
                if auths != ["OAuth2 " + want] or (not saltable and not c[1].startswith(x)):
                    late = late or (f"request {n + 1}: a block request to cluster {x!r} ({host}, named by a +K@{x} hint) carries "
                                    f"{auths!r}, which is not the caller's token salted for {x!r}")
        if not sent_block and status not in ("200",) and saltable and rhints and all(r in cfg for r in rhints):
            return f"request {n + 1}: a saltable v2 token was refused (status {status})"
    for h in held:
        for ut in all_tokens:
            sec = _secret_of(ut) or (ut if _classify(ut)[0] == "legacy" else None)
            if sec and sec in h:
                return "a cached per-remote keep client holds a caller's unsalted token"
    dump = unhx(iv.get("X", "-"))
    for ut in all_tokens:
        s = _secret_of(ut)
        if s and _leaks(s, dump):
            return "the unsalted secret of a caller's token occurs in what the process sent to a remote cluster"
    return late


def oracle(case, impl):
    f = case.split(" ")
    op = f[0]
    if impl.startswith("CRASH"):
        return "driver crashed: " + impl[:200]
    if op == "kproc":
        return _oracle_kproc(case, impl)
    if op == "salt":
        return _oracle_salt(unhx(f[1]), unhx(f[2]), impl)
    if op == "keep":
        return _oracle_salt(unhx(f[2]), unhx(f[1]), impl)
    if op == "twice":
        if impl.startswith("panic"):
            return "driver could not observe SaltToken: " + impl[:200]
        w = _oracle_salt(unhx(f[1]), unhx(f[2]), impl.split(" then ")[0])
        if w:
            return w
        if " then " in impl:
            first, second = impl.split(" then ")
            if second not in (first, "err salted"):
                return "salting a salted token produced a new token: " + second
        return None
    if op in ("provseq", "provhttpseq"):
        parts = impl.split("|")
        remotes = f[1].split(";")
        if len(parts) != len(remotes) + 1:
            return "driver could not observe the sequence: " + impl[:200]
        sub = "prov" if op == "provseq" else "provhttp"
        for n, (r, part) in enumerate(zip(remotes, parts)):
            w = _oracle_prov(f"{sub} {r or '-'} {f[2]}", part)
            if w:
                return f"remote {n + 1} of the request ({unhx(r)!r}): {w}"
        return None
    if op in ("prov", "provhttp", "fednew"):
        return _oracle_prov(case, impl)
    if op == "provnc":
        return None if impl.startswith("err") else "tokens were provided without credentials"
    if op == "keepget":
        remote, t = unhx(f[1]), unhx(f[2])
        if impl.startswith("refused"):
            c = _classify(t)
            if c[0] == "v2" and len(c[2]) != 40:
                return "a saltable v2 token was refused"
            return None
        if not impl.startswith("sent"):
            return "driver could not observe the request: " + impl[:200]
        c = _classify(t)
        auths = unhxlist(impl.split(" ")[1])
        _, iv = _kv(impl)
        if c[0] != "v2":
            return "a request was sent to the remote cluster with a token that cannot be salted"
        want = _salted(c[1], c[2], remote) if len(c[2]) != 40 else t
        if auths != ["OAuth2 " + want]:
            return f"remote keep request carries {auths!r}, expected ['OAuth2 {want}']"
        s = _secret_of(t)
        if s and _leaks(s, unhx(iv["X"])):
            return "the unsalted secret occurs in the request sent to the remote keep service"
        return None
    if op == "keepseq":
        steps = f[1].split(";")
        outs = impl.split(";")
        if len(outs) != len(steps):
            return "driver could not observe the sequence: " + impl[:200]
        for n, (st, o) in enumerate(zip(steps, outs)):
            r, t = st.split(":")
            w = _oracle_salt(unhx(t), unhx(r), o.replace("-", " ", 1))
            if w:
                return f"step {n + 1} of the sequence (remote {unhx(r)!r}): {w}"
        return None
    if op == "keepgetseq":
        steps = f[1].split(";")
        outs = impl.split(";")
        if len(outs) != len(steps):
            return "driver could not observe the sequence: " + impl[:200]
        for n, (st, o) in enumerate(zip(steps, outs)):
            hints, t = st.split(":")
            hints, t = [unhx(h) for h in hints.split("+")], unhx(t)
            c = _classify(t)
            if o.startswith("refused"):
                if c[0] == "v2" and len(c[2]) != 40:
                    return f"step {n + 1}: a saltable v2 token was refused"
                continue
            for pair in o.split("|"):
                if not pair.startswith("sent-") or "@" not in pair:
                    return "driver could not observe the request: " + pair[:200]
                a, dest = pair[5:].split("@")
                if dest.startswith("unknown"):
                    return f"step {n + 1}: a request went to a host of no configured remote"
                dest = unhx(dest)
                if dest not in hints:
                    return f"step {n + 1}: a request went to remote {dest!r} that the locator does not name"
                if c[0] != "v2":
                    return f"step {n + 1}: a request was sent with a token that cannot be salted"
                want = _salted(c[1], c[2], dest) if len(c[2]) != 40 else t
                if unhxlist(a) != ["OAuth2 " + want]:
                    return (f"step {n + 1}: remote {dest!r} received {unhxlist(a)!r}, expected the token salted for "
                            f"{dest!r}: ['OAuth2 {want}']")
        return None
    if op in ("legacy", "legacyw"):
        return _oracle_legacy(case, impl)
    if op == "legacynf":
        return None if impl == "notfound" else "a request for a remote cluster that is not configured was not refused"
    if op == "load":
        # discovery order named in the property's anchors: header, query, cookie; body separately
        if not impl.startswith("tokens "):
            return "driver could not observe the discovery: " + impl[:200]
        placed = _placed_tokens(f[2:7])
        want = [t for w, t in placed if not w.startswith("form")]
        got = unhxlist(impl.split(" ")[1])
        if got != want:
            return f"token discovery found {got!r}, expected {want!r}"
        return None
    return "unknown op"


# ----------------------------------------------------------------------------- findings

def finding_of(case, impl, why):
    """F7, F19a, F19b, F19c are fixed in /repo. F19d (known): a +K@<cluster> hint in a locator that
    keepstore proxies to remote R makes keepclient send the token salted for R to
    keep.<cluster>.arvadosapi.com. Only that witness shape is mapped: the oracle reports it last,
    i.e. only when nothing else is wrong with the case."""
    if case.startswith("kproc ") and why and "named by a +K@" in why and "which is not the caller's token salted for" in why:
        return "F19d"
    return None


# ----------------------------------------------------------------------------- evidence helpers

def nontrivial_key(case, impl):
    f = case.split(" ")
    op = f[0]
    if op in ("salt", "twice"):
        return case if f[1] != "-" else None
    if op in ("keep", "keepget"):
        return case if f[2] != "-" else None
    if op in ("keepseq", "keepgetseq", "kproc"):
        return case
    if op in ("prov", "provhttp", "fednew", "provseq", "provhttpseq"):
        return case if f[2] != "-" else None
    if op in ("legacy", "legacyw", "legacynf"):
        return case if _placed_tokens(f[3:8]) else None
    if op == "load":
        return case if _placed_tokens(f[2:7]) else None
    return None


def describe(cases, impl):
    ops, kinds, placements, combos, outcomes, seclen = {}, {}, {}, {}, {}, {}
    encodings, lookups, seqs = {"=": 0, "~": 0, "^": 0}, {}, {}

    def tokkind(t):
        c = _classify(t)
        if c[0] == "v2":
            k = "v2-40" if len(c[2]) == 40 else "v2"
            b = str(len(c[2])) if len(c[2]) in (0, 1, 38, 39, 40, 41, 42, 50, 60) else "other"
            seclen[b] = seclen.get(b, 0) + 1
            if len(t.split("/")) > 3:
                k += "+extra"
            return k
        return c[0]
    for c, r in zip(cases, impl):
        f = c.split(" ")
        ops[f[0]] = ops.get(f[0], 0) + 1
        if f[0] in ("legacy", "legacyw", "load"):
            for fld in (f[4], f[7]) if f[0] != "load" else (f[3], f[6]):
                for ch in "=~^":
                    encodings[ch] += fld.count(ch)
        if f[0] in ("prov", "provhttp", "provseq", "provhttpseq") and f[2] != "-":
            for sp in f[2].split(";"):
                lk = sp.split(":")[1]
                lk = "found" if lk.startswith("f.") else lk
                lookups[lk] = lookups.get(lk, 0) + 1
        if r is not None:
            o = f[0] + ":" + " ".join(r.split(" ")[:2] if r.startswith("err") else r.split(" ")[:1])
            outcomes[o] = outcomes.get(o, 0) + 1
        if f[0] in ("salt", "twice"):
            k = tokkind(unhx(f[1]))
            kinds[k] = kinds.get(k, 0) + 1
        elif f[0] in ("keep", "keepget"):
            k = tokkind(unhx(f[2]))
            kinds[k] = kinds.get(k, 0) + 1
        elif f[0] in ("keepseq", "keepgetseq"):
            sts = [st.split(":") for st in f[1].split(";")]
            reuse = any(a[1] == b[1] and a[0] != b[0] for i, a in enumerate(sts) for b in sts[i + 1:])
            key = "sequences_same_token_other_remote" if reuse else "sequences_other"
            seqs[key] = seqs.get(key, 0) + 1
        elif f[0] in ("prov", "provhttp", "fednew", "provseq", "provhttpseq") and f[2] != "-":
            for s in f[2].split(";"):
                k = tokkind(unhx(s.split(":")[0]))
                kinds[k] = kinds.get(k, 0) + 1
        elif f[0] in ("legacy", "legacyw", "load"):
            pl = _placed_tokens(f[3:8] if f[0] != "load" else f[2:7])
            for w, t in pl:
                placements[w] = placements.get(w, 0) + 1
                k = tokkind(t)
                kinds[k] = kinds.get(k, 0) + 1
            key = "+".join(sorted(set(w for w, _ in pl))) or "none"
            combos[key] = combos.get(key, 0) + 1
    return {"ops": ops, "token_kinds": kinds, "v2_secret_lengths": seclen, "placements": placements,
            "placement_combinations": combos, "impl_outcomes": outcomes,
            "item_encodings": encodings, "local_lookup_outcomes": lookups, "keepstore_sequences": seqs}


def neighbours(case, rng):
    f = case.split(" ")
    out = []
    home = "zhome"
    if f[0] in ("legacy", "legacyw"):
        remote = unhx(f[1])
        for pl in (["oauth2"], ["bearer"], ["basic"], ["query"], ["form"], ["cookie"], None, None):
            m, A, Q, K, T, B, D = _gen_request(rng, remote or "zrmte", home, pl)
            out.append(f"legacy {f[1]} {m} {A} {Q} {K} {T} {B} {D}")
    elif f[0] in ("salt", "twice", "keep"):
        for _ in range(8):
            remote = _remote(rng)
            t = _token(rng, remote, home)
            out.append(f"salt {hx(t)} {hx(remote)}" if f[0] != "keep" else f"keep {hx(remote)} {hx(t)}")
    elif f[0] in ("prov", "provhttp"):
        for _ in range(8):
            remote = _cluster(rng)
            toks = [_token(rng, remote, home, weird=False) for _ in range(rng.choice([1, 2, 3]))]
            spec = ";".join(f"{hxc(t)}:{_lookup(rng, t, remote, home)}" for t in toks)
            out.append(f"{f[0]} {hx(remote)} {spec}")
    else:
        out.append(case)
    return out
