"""C15 plugin: every runnable container reaches a final state; idle instances are released.

Channels (see CONVENTIONS.md for the plugin interface):
  w   lib/dispatchcloud/worker     real worker/Pool/remoteRunner functions in a (state, timer) configuration
                                   against the response model                    (ops tk sb pr pl sy kl uk sc o1 cr rs rc tg wc tp)
  s   lib/dispatchcloud/scheduler  real sync() / fixStaleLocks() against stubs    (ops sw fl lc)
  e2e lib/dispatchcloud            real dispatcher against the stub cloud with a randomized fault schedule,
                                   a restart, and a wall-clock deadline           (op  e2e)
"""
import itertools
import os
import re

ID = "C15"
RULE = ("response differential: each periodic dispatcher action (runProbes' idle/drain check, shutdownIfBroken, "
        "a whole probeAndUpdate, Pool.sync, remoteRunner.Kill, onUnkillable, StartContainer, scheduler sync, "
        "fixStaleLocks) is run for real in a generated (worker state, idle behaviour, runner set, given-up flags, "
        "elapsed timer values around each timeout) configuration and compared with the Lean response model; "
        "deadline runs: the real dispatcher against the stub cloud under a generated fault schedule (per-VM boot "
        "delay, broken-after time, missing crunch-run, report-broken time, never-booting VMs, crash rate, arv-mount "
        "deadlock rate, destroy error rate, create/list rate limits, quota errors, on-hold containers, one "
        "dispatcher restart at a random point) with 20-100 (quick) / up to 500 (thorough) containers of mixed "
        "priorities and sizes. A case is non-trivial when the action changes the worker/pool or issues a call "
        "(response ops) or at least one container ran (deadline runs); distinct = distinct case line")
ASSUMPTIONS = [
    "P1: the cloud eventually creates a working instance of each requested type and eventually honours Destroy",
    "P2: weak fairness - every continuously enabled dispatcher action (scheduler pass, probe, pool sync, queue "
    "poll, timer expiry) eventually happens",
    "P3: finitely many faults (crashes, broken/unreachable instances, failed Destroy calls, quota and rate-limit "
    "errors, dispatcher restarts, premature timeouts)",
    "P4: an Idle worker in run mode is not shut down for idleness while a Locked container of its type waits to be "
    "started (timeoutIdle exceeds the scheduler's reaction time)",
    "timers are abstract events: the response lemmas take elapsed durations as inputs",
    "C14's assumptions A1-A3 (mutual exclusion is imported, not re-proved)",
]
TRUSTED = ["stub executors and fake instances in the worker driver", "stub pool/queue in the scheduler driver",
           "lib/dispatchcloud/test StubDriver/StubVM/Queue as the environment of the deadline runs",
           "the wall-clock deadline (150 s quick, 900 s thorough; doubled once before a failure is reported) as a "
           "stand-in for 'eventually'"]

DRIVERS = {
    "w": {"kind": "gotest", "pkg": "lib/dispatchcloud/worker", "test": "TestVerifC15", "min_chunk": 150,
          "timeout": 1500},
    "s": {"kind": "gotest", "pkg": "lib/dispatchcloud/scheduler", "test": "TestVerifC15", "min_chunk": 150,
          "timeout": 1500},
    "e2e": {"kind": "gotest", "pkg": "lib/dispatchcloud", "test": "TestVerifC15", "min_chunk": 1, "shards": 8,
            "timeout": 6000},
}

WS = "UBIRS"
IB = "rhd"
T = {"idle": 60, "booting": 60, "probe": 180, "shutdown": 60, "stale": 60}


def channel(case):
    op = case.split(" ", 1)[0]
    if op in ("sw", "fl", "lc"):
        return "s"
    if op == "e2e":
        return "e2e"
    return "w"


# ----------------------------------------------------------------------------- generators

def _us(xs):
    xs = list(xs)
    return "/".join(str(x) for x in xs) if xs else "-"


def _subsets(xs):
    xs = list(xs)
    for r in range(len(xs) + 1):
        for c in itertools.combinations(xs, r):
            yield list(c)


def _runner_cfgs():
    out = []
    for sg in ([], [1]):
        for rg in ([], [2], [2, 3]):
            for gu in _subsets(sg + rg):
                out.append((sg, rg, gu))
    return out


def _gen_tk(rng, tier):
    out = []
    for st, ib, (sg, rg, gu), ago in itertools.product(WS, IB, _runner_cfgs(), (0, 30, 120)):
        out.append("tk %s %s %s %s %s %d" % (st, ib, _us(sg), _us(rg), _us(gu), ago))
    return out if tier == "thorough" else rng.sample(out, 400)


def _gen_sb():
    return ["sb %s %s %d" % (st, ib, d) for st, ib, d in
            itertools.product(WS, IB, (0, 99, 100, 101, 299, 300, 301, 5000))]


def _gen_pr(rng, n):
    out = []
    cfgs = _runner_cfgs()
    for _ in range(n):
        st = rng.choice("UUBBIIRRS")
        ib = rng.choice("rrrrhd")
        sg, rg, gu = rng.choice(cfgs)
        ago = rng.choice([0, 30, 120, 240])
        boot = rng.random() < 0.6
        lst = rng.random() < 0.7
        uu = rng.choice([[], [], [1], [2], [2, 3], [1, 2], [4], [3, 4]])
        br = rng.random() < 0.25
        stale = rng.choice("nnnnfyo")
        out.append("pr %s %s %s %s %s %d %d %d %s %d %s" % (st, ib, _us(sg), _us(rg), _us(gu), ago, boot, lst,
                                                            _us(uu), br, stale))
    return out


def _gen_sy(rng, n):
    out = []
    for _ in range(n):
        ids = rng.sample([1, 2, 3, 4, 5], rng.choice([0, 1, 2, 2, 3, 3, 4]))
        ws = ["%d:%s:%d:%d" % (i, rng.choice("UBIRSSSS"), rng.choice([0, 30, 120]), rng.random() < 0.4) for i in ids]
        listed = [i for i in ids if rng.random() < 0.7]
        for new in (6, 7):
            if rng.random() < 0.25:
                listed.append(new)
        rng.shuffle(listed)
        out.append("sy %s %s" % (",".join(ws) or "-", _us(listed)))
    return out


def _gen_kl(rng, tier):
    out = []
    for ib, (sg, rg, gu) in itertools.product(IB, _runner_cfgs()):
        for u in sg + rg:
            if u in gu:
                continue
            modes = ["n", "a"] + (["k1", "k2", "k3"] if u in rg else [])
            for m in modes:
                out.append("kl %s %s %s %s %d %s" % (ib, _us(sg), _us(rg), _us(gu), u, m))
    return out if tier == "thorough" else rng.sample(out, 150)


def _gen_uk():
    out = []
    for st, ib, (sg, rg, gu) in itertools.product("RIBU", IB, _runner_cfgs()):
        for u in sg + rg:
            if u not in gu:
                out.append("uk %s %s %s %s %s %d" % (st, ib, _us(sg), _us(rg), _us(gu), u))
    return out


def _gen_sc(rng, n):
    out = []
    for _ in range(n):
        ids = rng.sample([1, 2, 3, 4], rng.choice([0, 1, 2, 3, 3, 4]))
        ranks = rng.sample(range(1, 30), 4)
        ws = ["%d:%d:%s:%s:%d" % (i, rng.choice([1, 1, 2]), rng.choice("UBIIIIRS"), rng.choice("rrrhd"),
                                  rng.choice(ranks[:3])) for i in ids]
        out.append("sc %s %d" % (",".join(ws) or "-", rng.choice([1, 1, 2, 3])))
    return out


def _gen_cr(rng, tier):
    """Pool.Create calls run to completion with every cloud answer, quota / rate-limit back-off expiry in between"""
    out = ["cr " + "".join(t) for k in (1, 2, 3) for t in itertools.product("oqrext", repeat=k)]
    for _ in range(2000 if tier == "thorough" else 150):
        out.append("cr " + "".join(rng.choice("ooqqreextx") for _ in range(rng.randint(4, 10))))
    return out


def _gen_rs(rng, tier):
    """Pool.runSync with failing list calls (plain errors, rate-limit errors) in every position"""
    out = ["rs " + "".join(t) for k in (1, 2, 3, 4) for t in itertools.product("oer", repeat=k)]
    for _ in range(300 if tier == "thorough" else 30):
        out.append("rs " + "".join(rng.choice("ooeer") for _ in range(rng.randint(5, 12))))
    return out


def _gen_o1(rng, n):
    """start / probe / start-completion interleavings on one worker (runner objects; fixed finding F15a)"""
    out = []
    for _ in range(n):
        pending, ops = set(), []
        alive = set()
        for _ in range(rng.randint(2, 9)):
            r = rng.random()
            u = rng.choice([7, 8])
            if r < 0.3 and u not in pending:
                ops.append("st%d" % u)
                pending.add(u)      # (if the worker is busy the start is refused; `sd` is then a no-op)
                alive.add(u)
            elif r < 0.75:
                if rng.random() < 0.5 and alive:
                    alive.discard(rng.choice(sorted(alive)))
                ops.append("pa" + _us(sorted(alive)))
            elif pending:
                v = rng.choice(sorted(pending))
                pending.discard(v)
                ops.append("sd%d" % v)
        if ops:
            out.append("o1 " + ",".join(ops))
    return out


STATES = "QLRCXO"


def _sw_case(ents, running, qupd, unknown, latched=()):
    return "sw %s %s %d %d %s" % (
        ",".join("%d:%s:%d:%d" % e for e in ents) or "-",
        ",".join("%d:%s" % (u, "-" if t is None else str(t)) for u, t in running) or "-",
        qupd, 1 if unknown else 0, ",".join(str(u) for u in latched) or "-")


def _gen_pl(rng, n):
    """a whole probeAndUpdate given the lines `crunch-run --list` printed: tracked containers listed plain, stale
    (crunch-run gone, arv-mount left), or not at all; untracked ones plain or stale; broken / empty / odd lines"""
    out = []
    cfgs = _runner_cfgs()
    for st, (sg, rg, gu) in itertools.product("IRU", cfgs):        # every tracked container stale, nothing else
        if sg or rg:
            out.append("pl %s r %s %s %s 1 n %s" % (st, _us(sg), _us(rg), _us(gu), "/".join("s%d" % u for u in sg + rg)))
    for _ in range(n):
        st = rng.choice("UBIIRRRRS")
        ib = rng.choice("rrrrhd")
        sg, rg, gu = rng.choice(cfgs)
        lines = []
        for u in sg + rg + [4]:
            r = rng.random()
            if r < 0.35:
                lines.append("u%d" % u)
            elif r < 0.7:
                lines.append("s%d" % u)
            elif r < 0.78:
                lines.append("x%d" % u)
        if rng.random() < 0.15:
            lines.append("b")
        if rng.random() < 0.2:
            lines.append("e")
        rng.shuffle(lines)
        out.append("pl %s %s %s %s %s %d %s %s" % (st, ib, _us(sg), _us(rg), _us(gu), rng.random() < 0.7,
                                                  rng.choice("nnyyo"), "/".join(lines) or "-"))
    return out


def _lc_body(rng, u=None, op=None):
    return "%s%d:%s:%d" % (op or rng.choice("lllcckrr"), u or rng.choice([1, 1, 2]), rng.choice("QQLLRCX-"),
                           rng.random() < 0.75)


def _gen_lc(rng, n):
    """lockContainer / cancel / kill / requeue goroutines run to completion in sequence on one scheduler: every
    (operation, state reported by queue.Get, API result, latch free / taken) alone, every ordered pair of operations
    on one container with the first one finding each state, and random sequences on two containers"""
    out = []
    for op, st, api, held in itertools.product("lckr", "QLRCXO-", (0, 1), (0, 1)):
        out.append("lc %s%s1:%s:%d" % ("h1," if held else "", op, st, api))
    for op1, st1, api1, op2 in itertools.product("lckr", "QLRCX-", (0, 1), "lckr"):
        out.append("lc %s1:%s:%d,%s1:%s:1" % (op1, st1, api1, op2, {"l": "Q", "c": "R", "k": "C", "r": "L"}[op2]))
    for _ in range(n):
        items = []
        for _ in range(rng.randint(2, 7)):
            r = rng.random()
            if r < 0.1:
                items.append("h%d" % rng.choice([1, 2]))
            elif r < 0.2:
                items.append("f%d" % rng.choice([1, 2]))
            else:
                items.append(_lc_body(rng))
        out.append("lc " + ",".join(items))
    return out


def _gen_sw(rng, n):
    out = []
    views = [None, "-", 3, 5, 7]    # not running / running / exited before, at, after the queue update (5)
    for st, pr, v, unk, la in itertools.product(STATES, (0, 1), views, (0, 1), (0, 1)):
        run = [] if v is None else [(1, None if v == "-" else v)]
        out.append(_sw_case([(1, st, pr, 1)], run, 5, unk, [1] if la else []))
    for _ in range(n):
        uuids = rng.sample(range(1, 8), rng.choice([1, 2, 3, 4]))
        ents = [(u, rng.choice("QLLRRRCX"), rng.choice([0, 1, 5]), rng.choice([1, 2])) for u in uuids]
        running = []
        for u in uuids + [8]:
            r = rng.random()
            if r < 0.3:
                running.append((u, None))
            elif r < 0.55:
                running.append((u, rng.choice([1, 4, 5, 6, 9])))
        out.append(_sw_case(ents, running, 5, rng.random() < 0.3, [u for u in uuids + [8] if rng.random() < 0.2]))
    return out


def _fl_snap(rng, uuids, must_wait, end_unknown0):
    """One snapshot; must_wait: an Unknown worker and at least one stale lock."""
    while True:
        ents = [(u, rng.choice("QLLLLRC"), rng.choice([0, 1, 3]), 1) for u in uuids]
        running = [u for u in uuids if rng.random() < 0.3]
        stale = [e[0] for e in ents if e[1] == "L" and e[0] not in running]
        if must_wait and not stale:
            continue
        unknown = 1 if must_wait else (0 if end_unknown0 else 1)
        if not must_wait and not end_unknown0 and stale:
            continue
        return "%d~%s~%s" % (unknown, ",".join("%d:%s:%d:%d" % e for e in ents) or "-",
                             ",".join(map(str, running)) or "-")


def _gen_fl(rng, n):
    out = []
    for i in range(n):
        uuids = rng.sample(range(1, 7), rng.choice([1, 2, 3, 3]))
        k = rng.choice([0, 1, 1, 2, 3])
        tl = 1 if i % 12 == 0 else 0          # the timeout path waits for a real timer: keep it rare
        snaps = [_fl_snap(rng, uuids, True, False) for _ in range(k)]
        if tl:
            snaps.append(_fl_snap(rng, uuids, True, False))
        else:
            snaps.append(_fl_snap(rng, uuids, False, rng.random() < 0.6))
        out.append("fl %d %s" % (tl, ";".join(snaps)))
    return out


def _scale():
    try:
        return max(1, int(os.environ.get("VERIF_C15_DEADLINE_PCT", "100"))) / 100.0
    except ValueError:
        return 1.0


def _e2e(rng, n, d1, d2, **kw):
    p = dict(seed=rng.randint(1, 10 ** 6), n=n, d1=max(5, int(d1 * _scale())), d2=max(5, int(d2 * _scale())))
    p.update(kw)
    return "e2e " + " ".join("%s=%d" % kv for kv in p.items())


def _gen_e2e(rng, tier):
    out = []
    big = tier == "thorough"
    d1, d2 = (900, 120) if big else (150, 60)

    def n():
        return rng.randint(20, 500) if big and rng.random() < 0.5 else rng.randint(20, 100)

    def mix():
        return dict(restart=1, hold=rng.choice([0, 2, 5]), crash=rng.choice([0, 5, 10, 20]),
                    deadlock=rng.choice([0, 5, 10]), destroyerr=rng.choice([0, 10, 30]),
                    broken=rng.choice([0, 5, 7]), missing=rng.choice([0, 6, 7]), reportbroken=rng.choice([0, 5, 7]),
                    neverboot=rng.choice([0, 7, 9]), boot=rng.choice([5, 50, 300]),
                    mincreate=rng.choice([1, 5, 30]), minlist=rng.choice([0, 0, 20, 80]), lag=rng.choice([0, 2, 20]))
    out.append(_e2e(rng, n(), d1, d2))                                    # fault-free baseline
    out.append(_e2e(rng, n(), d1, d2, restart=1))                         # restart only
    out.append(_e2e(rng, n(), d1, d2, restart=1, crash=10, deadlock=10, destroyerr=10, broken=7, missing=7,
                    reportbroken=7, neverboot=7, hold=2))                # upstream's mix + restart
    for _ in range(20 if big else 4):
        out.append(_e2e(rng, n(), d1, d2, **mix()))
    # quota errors keep Create switched off for quotaErrorTTL = 1 min each: few of them, longer deadline
    out.append(_e2e(rng, rng.randint(20, 40), d1 + 150, d2, restart=1, quotaat=rng.randint(3, 10), crash=5,
                    destroyerr=10))
    if big:
        for _ in range(3):
            out.append(_e2e(rng, rng.randint(30, 80), d1 + 600, d2, quota=rng.randint(8, 14), **mix()))
    return out


def generate(rng, tier):
    big = tier == "thorough"
    cases = []
    cases += _gen_e2e(rng, tier)
    cases += _gen_tk(rng, tier)
    cases += _gen_sb()
    cases += _gen_pr(rng, 20000 if big else 1500)
    cases += _gen_pl(rng, 8000 if big else 500)
    cases += _gen_sy(rng, 10000 if big else 500)
    cases += _gen_kl(rng, tier)
    cases += _gen_uk()
    cases += _gen_sc(rng, 5000 if big else 400)
    cases += _gen_o1(rng, 4000 if big else 300)
    cases += _gen_cr(rng, tier)
    cases += _gen_rs(rng, tier)
    cases += ["rc 1", "rc 0"]
    cases += ["tp " + "".join(t) for k in (1, 2, 3) for t in itertools.product("fsx", repeat=k)][::1 if big else 3]
    cases += ["tg %s %s %d %d" % t for t in itertools.product("rhd-", "rhd", (0, 1), (0, 1))]
    cases += ["wc %s %s" % (_us(sg), _us(rg)) for sg in ([], [1]) for rg in ([], [2], [2, 3])]
    cases += _gen_sw(rng, 10000 if big else 800)
    cases += _gen_fl(rng, 3000 if big else 240)
    cases += _gen_lc(rng, 3000 if big else 200)
    # malformed stream
    cases += ["zz 1 2", "tk I r - - -", "tk Z r - - - 0", "sb I q 5", "pr I r - - - 0 1 1 - 0 z", "kl r - 2 - 2 q",
              "sc 1:1:I:r 1", "sw 1:R:1 - 5 0 -", "fl 2 1~-~-", "fl 0 1~1:L:1:1",
              "pl I r - 2 - 1 n q2", "pl I r - 2 - 1 z u2", "lc l1:Q", "lc z1:Q:1", "lc l1:Z:1"]
    return cases


# ----------------------------------------------------------------------------- compare

def _kv(s):
    d = {}
    for tok in s.split(" "):
        if "=" in tok:
            k, v = tok.split("=", 1)
            d[k] = v
    return d


def compare(case, impl, model):
    op = case.split(" ", 1)[0]
    if op == "sc":
        return impl in model.split("|")
    if op == "e2e":
        if model != "e2e-expect final=all instances=0" or not impl.startswith("e2e "):
            return False
        d = _kv(impl)
        fin = d.get("final", "0/1").split("/")
        return len(fin) == 2 and fin[0] == fin[1] and d.get("left") == "-"
    return impl == model


# ----------------------------------------------------------------------------- oracle (property text)

def _lst(s):
    return [] if s in ("-", "") else [int(x) for x in s.split("/")]


def _thr(st):
    return T["booting"] if st in "UB" else T["probe"]


def _oracle_tk(f, impl):
    st, ib, sg, rg, gu, ago = f[1], f[2], _lst(f[3]), _lst(f[4]), _lst(f[5]), int(f[6])
    m = re.fullmatch(r"([UBIRS])([rhd]) d=(\d+) p=([01])", impl)
    if not m:
        return "driver could not observe the case: " + impl[:200]
    st2, ib2, d = m.group(1), m.group(2), int(m.group(3))
    allgu = all(u in gu for u in sg + rg)
    if ib == "h" and (d or st2 != st):
        return "held worker was shut down"
    if st == "I" and ib == "r" and ago >= T["idle"] and not (st2 == "S" and d == 1):
        return f"idle worker past timeoutIdle ({ago} >= {T['idle']}) was not shut down"
    if ib == "d" and (st in "IB" or (st == "R" and allgu)) and not (st2 == "S" and d == 1):
        return "draining worker with no live runner was not shut down"
    if ib == "r" and not (st == "I" and ago >= T["idle"]) and d:
        return "worker in run mode shut down although not idle past timeoutIdle"
    if ib == "d" and st == "R" and not allgu and d:
        return "draining worker shut down while a runner is still alive"
    return None


def _oracle_sb(f, impl):
    st, ib, dur = f[1], f[2], int(f[3])
    m = re.fullmatch(r"([UBIRS])([rhd]) d=(\d+) r=([01])", impl)
    if not m:
        return "driver could not observe the case: " + impl[:200]
    d = int(m.group(3))
    thr = 100 if st in "UB" else 300
    if ib == "h" or dur < thr:
        return "worker shut down before its boot/probe timeout (or while held)" if d else None
    if not (m.group(1) == "S" and d == 1):
        return f"unresponsive worker past its {'boot' if st in 'UB' else 'probe'} timeout was not shut down"
    return None


def _oracle_pr(f, impl):
    st, ib, rg, ago = f[1], f[2], _lst(f[4]), int(f[6])
    boot, lst, uu, br, stale = f[7] == "1", f[8] == "1", _lst(f[9]), f[10] == "1", f[11]
    m = re.fullmatch(r"([UBIRS])([rhd]) sg=(\S+) rg=(\S+) ex=(\S+) d=(\d+) sl=([01])", impl)
    if not m:
        return "driver could not observe the case: " + impl[:200]
    st2, ib2, d = m.group(1), m.group(2), int(m.group(6))
    if st == "S":
        return None if (st2 == "S" and d == 0) else "probe acted on a worker that is already shut down"
    if ib == "h" and d:
        return "held worker was shut down"
    booted = st in "IR" or boot
    ran = booted or st == "U"
    says_broken = ran and lst and (br or stale == "o")
    if says_broken and ib == "r" and ib2 != "d":
        return "instance reported itself broken but the worker was not set to drain"
    failed = (not ran) or (not lst) or (not booted and not uu and not rg)
    if failed and ib != "h" and ago >= _thr(st) and not (st2 == "S" and d == 1):
        # a drain-triggered shutdown counts as well (state S, one Destroy)
        return (f"worker failing its probes for {ago} >= {_thr(st)} "
                f"({'boot' if st in 'UB' else 'probe'} timeout) was not shut down")
    return None


def _oracle_pl(f, impl):
    st, ib, sg, rg, gu = f[1], f[2], _lst(f[3]), _lst(f[4]), _lst(f[5])
    boot, stale = f[6] == "1", f[7]
    lines = [] if f[8] == "-" else f[8].split("/")
    m = re.fullmatch(r"([UBIRS])([rhd]) sg=(\S+) rg=(\S+) ex=(\S+) d=(\d+) sl=([01])", impl)
    if not m:
        return "driver could not observe the case: " + impl[:200]
    st2, ib2, rg2, ex2, d = m.group(1), m.group(2), _lst(m.group(4)), _lst(m.group(5)), int(m.group(6))
    if st == "S":
        return None if (st2 == "S" and d == 0) else "probe acted on a worker that is already shut down"
    if ib == "h" and d:
        return "held worker was shut down"
    plain = {int(t[1:]) for t in lines if t[0] == "u"}
    says_broken = "b" in lines or (stale == "o" and any(t[0] == "s" for t in lines))
    booted = st in "IR" or boot
    if not booted and st != "U":
        return None                 # the list command is not run
    if says_broken and ib == "r" and ib2 != "d":
        return "instance reported itself broken but the worker was not set to drain"
    if booted and not says_broken:
        for u in rg:
            if u not in plain and (u in rg2 or u not in ex2):
                how = "only as a stale run lock (crunch-run has exited)" if ("s%d" % u) in lines else "not at all"
                return (f"container {u} is listed {how} but the probe still counts it as running / did not record its "
                        f"exit: it is never cancelled or re-queued and keeps the instance busy")
        for u in rg2:
            if u not in plain:
                return f"container {u} is in the worker's running set although crunch-run --list has no line for a live process of it"
    return None


def _oracle_lc(f, impl):
    m = re.fullmatch(r"(\S+) latch=(\S+)", impl)
    items = f[1].split(",")
    if not m or len(m.group(1).split(",")) != len(items):
        return "driver could not observe the case: " + impl[:200]
    outs = m.group(1).split(",")
    case_held = set()
    for it, o in zip(items, outs):
        if ":" not in it:
            u = int(it[1:])
            (case_held.add if it[0] == "h" else case_held.discard)(u)
            continue
        x = it.split(":")
        op, u, st = x[0][0], int(x[0][1:]), x[1]
        mo = re.fullmatch(r"(\S+)\|w([01])", o)
        if not mo:
            return "driver could not observe the case: " + impl[:200]
        calls = [] if mo.group(1) == "-" else mo.group(1).split(".")
        if u in case_held:
            if [c for c in calls if c[:2] != "qg"]:
                return f"operation on container {u} issued while another one is in flight"
            if mo.group(2) != "1":
                return f"operation on container {u} skipped (latch held) without scheduling a wake-up"
            continue
        want = {"c": "qc", "r": "qu", "k": "pk"}.get(op) or ("ql" if st == "Q" else None)
        if want and f"{want}{u}" not in calls:
            what = {"c": "cancelled", "r": "re-queued", "k": "killed", "l": "locked"}[op]
            return (f"container {u} was not {what}: its goroutine made the calls {calls or 'none'} although no other "
                    f"operation on it is in flight (an earlier goroutine returned without releasing the latch)")
    held = set(_lst(m.group(2)))
    if held - case_held:
        return (f"the operation latch of container(s) {sorted(held - case_held)} is still held after every goroutine has "
                f"returned: every later cancel / requeue / kill / lock of them is refused for ever")
    return None


def _oracle_sy(f, impl):
    ws = {}
    if f[1] != "-":
        for spec in f[1].split(","):
            i, st, ago, fresh = spec.split(":")
            ws[int(i)] = (st, int(ago), fresh == "1")
    listed = set(_lst(f[2]))
    got = {}
    if impl != "-":
        for tok in impl.split(","):
            m = re.fullmatch(r"(\d+):([UBIRS]):(\d+)", tok)
            if not m:
                return "driver could not observe the case: " + impl[:200]
            got[int(m.group(1))] = (m.group(2), int(m.group(3)))
    for i, (st, ago, fresh) in ws.items():
        if i in listed:
            if i not in got:
                return f"listed instance {i} was dropped from the pool"
            if st == "S" and ago > T["shutdown"] and got[i][1] < 1:
                return f"instance {i} still listed {ago} > {T['shutdown']} after shutdown: Destroy was not re-issued"
        elif not fresh and i in got:
            return f"instance {i} disappeared from the cloud's list but is still in the pool"
    return None


def _oracle_kl(f, impl):
    ib, sg, rg, gu, u, mode = f[1], _lst(f[2]), _lst(f[3]), _lst(f[4]), int(f[5]), f[6]
    m = re.fullmatch(r"([UBIRS])([rhd]) sg=(\S+) rg=(\S+) gu=(\S+) ex=(\S+) d=(\d+) end=(\w+)", impl)
    if not m:
        return "driver could not observe the case: " + impl[:200]
    st2, ib2, rg2, gu2, end = m.group(1), m.group(2), _lst(m.group(4)), _lst(m.group(5)), m.group(8)
    unkillable = mode == "n" or (mode == "a" and u in sg)
    if unkillable:
        if end != "gaveup" or u not in gu2:
            return f"Kill never gave up on unkillable process {u}"
        if ib != "h" and ib2 != "d":
            return f"worker with unkillable process {u} was not set to drain"
        if ib == "h" and (ib2 != "h" or st2 == "S"):
            return "held worker was drained or shut down"
        if ib != "h" and all(x in gu2 for x in sg + rg) and st2 != "S":
            return "draining worker whose runners have all given up was not shut down"
    else:
        if end != "closed" or u in rg2:
            return f"killed process {u} was not released"
    return None


def _oracle_uk(f, impl):
    st, ib, sg, rg, gu, u = f[1], f[2], _lst(f[3]), _lst(f[4]), _lst(f[5]), int(f[6])
    m = re.fullmatch(r"([UBIRS])([rhd]) d=(\d+)", impl)
    if not m:
        return "driver could not observe the case: " + impl[:200]
    st2, ib2, d = m.group(1), m.group(2), int(m.group(3))
    if ib == "h":
        return None if (ib2 == "h" and st2 == st and d == 0) else "held worker was drained or shut down"
    if ib2 != "d":
        return "worker with an unkillable process was not set to drain"
    if st in "IB" or (st == "R" and all(x in gu + [u] for x in sg + rg)):
        if not (st2 == "S" and d == 1):
            return "draining worker with no live runner was not shut down"
    return None


def _oracle_sc(f, impl):
    ws = {}
    if f[1] != "-":
        for spec in f[1].split(","):
            i, t, st, ib, busy = spec.split(":")
            ws[int(i)] = (int(t), st, ib)
    ty = int(f[2])
    m = re.fullmatch(r"w(\d+)", impl)
    if not m:
        return "driver could not observe the case: " + impl[:200]
    i = int(m.group(1))
    ok = [k for k, (t, st, ib) in ws.items() if t == ty and st == "I" and ib == "r"]
    if i == 0:
        return f"StartContainer refused although worker {ok[0]} is idle in run mode" if ok else None
    if i not in ok:
        return f"StartContainer chose worker {i} {ws.get(i)}: only an Idle worker in run mode of the right type may receive work"
    return None


def _oracle_sw(f, impl):
    ents = {}
    if f[1] != "-":
        for e in f[1].split(","):
            u, st, pr, ty = e.split(":")
            ents[int(u)] = (st, int(pr))
    run = {}
    if f[2] != "-":
        for x in f[2].split(","):
            u, t = x.split(":")
            run[int(u)] = None if t == "-" else int(t)
    qupd, unknown = int(f[3]), f[4] == "1"
    latched = set() if f[5] == "-" else {int(u) for u in f[5].split(",")}
    parts = impl.split(";")
    if len(parts) != 3 or not parts[2].startswith("wake="):
        return "driver could not observe the pass: " + impl[:200]
    eff = set()
    if parts[1] != "-":
        for g in parts[1].split(","):
            eff.update(g.split("."))
    wake = parts[2] == "wake=1"
    for u, (st, pr) in ents.items():
        want = None
        if st == "R" and u not in run and not unknown:
            want = ("qc", "Running container %d has no process on any worker and no worker is Unknown: not cancelled")
        elif st == "R" and run.get(u) is not None and run[u] < qupd:
            want = ("qc", "Running container %d whose process exited before the last queue update: not cancelled")
        elif st == "L" and run.get(u) is not None and run[u] < qupd:
            want = ("qu", "Locked container %d whose process exited: not re-queued")
        if want is None:
            continue
        if u in latched:
            if not wake:
                return f"operation on container {u} skipped (latch held) without scheduling a wake-up"
            if f"{want[0]}{u}" in eff:
                return f"operation on container {u} issued while another one is in flight"
        elif f"{want[0]}{u}" not in eff:
            return want[1] % u
    return None


def _oracle_fl(f, impl):
    m = re.fullmatch(r"un=(\S+)", impl)
    if not m:
        return "fixStaleLocks did not return or could not be observed: " + impl[:200]
    un = set(_lst(m.group(1)))
    tl = f[1] == "1"
    snaps = []
    for s in f[2].split(";"):
        unk, ents, running = s.split("~")
        es = {}
        if ents != "-":
            for e in ents.split(","):
                u, st, pr, ty = e.split(":")
                es[int(u)] = st
        rs = set() if running == "-" else {int(u) for u in running.split(",")}
        snaps.append((unk == "1", es, rs))
    ever_locked = {u for _, es, _ in snaps for u, st in es.items() if st == "L"}
    if not un <= ever_locked:
        return f"fixStaleLocks unlocked {sorted(un - ever_locked)} which were never Locked"

    def stale(sn):
        return {u for u, st in sn[1].items() if st == "L" and u not in sn[2]}
    # shape produced by the generator: every snapshot but the last has an Unknown worker and a stale lock
    if not all(sn[0] and stale(sn) for sn in snaps[:-1]):
        return None
    last = snaps[-1]
    if tl:
        if last[0] and not stale(last) <= un:
            return f"stale locks {sorted(stale(last) - un)} not released when fixStaleLocks timed out"
    elif not last[0] and len(snaps) >= 2:
        still = stale(snaps[-2]) & stale(last)
        if not still <= un:
            return f"stale locks {sorted(still - un)} not released although no worker is Unknown any more"
    return None


def _oracle_cr(f, impl):
    steps = impl.split(",")
    if len(steps) != len(f[1]) or not all(re.fullmatch(r"c\d+u\d+q[01]w\d+a[01]", t) for t in steps):
        return "driver could not observe the case: " + impl[:200]
    for ch, t in zip(f[1], steps):
        m = re.fullmatch(r"c(\d+)u(\d+)q([01])w(\d+)a([01])", t)
        c, u, q, w, a = (int(x) for x in m.groups())
        if c != 0:
            return f"a Create call that has returned (answer '{ch}') is still counted as pending (len(creating)={c})"
        if u != w:
            return f"Unallocated() reports {u} workers on their way but only {w} exist or are being created"
        if ch == "q" and a == 1 and q != 1:
            return "a quota error did not switch Create off (AtQuota() is false)"
    return None


def _oracle_rs(f, impl):
    m = re.fullmatch(r"lists=(\d+)", impl)
    if not m:
        return "driver could not observe the case: " + impl[:200]
    n = int(m.group(1))
    if n <= len(f[1]):
        k = f[1][n - 1] if n >= 1 else "?"
        return (f"the pool stopped listing the cloud's instances after {n} call(s) (the last one answered "
                f"'{k}'): Pool.sync no longer runs, so vanished instances are never dropped and Destroy is never retried")
    return None


def _oracle_tg(f, impl):
    if impl == "set=none":
        if f[1] != f[2] or f[3] != "1":
            return "the instance's IdleBehavior / InstanceType tag is out of date but no tags were written"
        return None
    if not impl.startswith("set="):
        return "driver could not observe the case: " + impl[:200]
    got = dict(kv.split("=", 1) for kv in impl[4:].split(";") if "=" in kv)
    want = {"InstanceSetID": "set1", "InstanceSecret": "sec1", "InstanceType": "type1",
            "IdleBehavior": {"r": "run", "h": "hold", "d": "drain"}[f[2]]}
    if f[4] == "1":
        want["zone"] = "x"
    for k, v in want.items():
        if got.get(k) != v:
            return (f"the tag set written to the instance lacks {k}={v} (SetTags replaces the whole set: without "
                    f"its InstanceSetID tag the instance is no longer listed, the pool forgets it and never destroys it)")
    return None


def _oracle_wc(f, impl):
    m = re.fullmatch(r"closed=(\d) held=([01])", impl)
    if not m:
        return "driver could not observe the case: " + impl[:200]
    if m.group(1) != "1":
        return "the executor of a dropped worker was not closed"
    if m.group(2) == "1":
        return ("worker.Close() closes the SSH executor while holding the pool mutex: an SSH handshake in progress "
                "needs that mutex to finish, so the pool (and with it the scheduler) can lock up")
    return None


def _oracle_tp(f, impl):
    if impl == "rounds>=3":
        return None
    if impl.startswith("stalled"):
        return ("Pool.runProbes stopped going round (%s): workers are no longer probed, so dead processes, broken "
                "instances and idle/drain timeouts are never noticed" % impl)
    return "driver could not observe the case: " + impl[:200]


def _oracle_rc(f, impl):
    if impl == "ok":
        return None
    return "the dispatcher process panics when an SSH connection is verified: " + impl[:120]


def _oracle_o1(f, impl):
    if impl.startswith("panic"):
        return "the dispatcher process panics while probing a worker: " + impl[:120]
    if not re.fullmatch(r"[IR] sg=\S+ rg=\S+ ex=\S+", impl):
        return "driver could not observe the case: " + impl[:200]
    return None


def _oracle_e2e(f, impl):
    if not impl.startswith("e2e "):
        return "deadline run could not be observed: " + impl[:300]
    d = _kv(impl)
    if "crash" in d:
        return "the dispatcher process panicked during the run: " + d["crash"]
    why = []
    fin = d.get("final", "?")
    if d.get("nonfinal", "?") != "-":
        why.append(f"at the deadline {fin} runnable containers are final; not Complete/Cancelled: {d.get('nonfinal')}")
    if d.get("left", "?") != "-":
        why.append(f"instances still exist after the queue drained: {d.get('left')}")
    if d.get("badwork", "?") != "-":
        why.append(f"work was sent to an instance that failed to boot / reported itself broken / was shut down: {d.get('badwork')}")
    if why and d.get("retried") != "1":
        return "deadline run failed but was not repeated: " + "; ".join(why)
    return "; ".join(why) + " (reproduced with doubled deadlines)" if why else None


def oracle(case, impl):
    """Property text on implementation output only."""
    f = case.split(" ")
    if f[0] == "o1" and impl.startswith("panic"):
        return _oracle_o1(f, impl)
    if f[0] == "rc" and impl.startswith("panic"):
        return _oracle_rc(f, impl)
    if impl.startswith(("panic", "CRASH")):
        return "driver could not observe the case: " + impl[:200]
    if impl == "bad-op":
        return None
    try:
        fn = {"tp": _oracle_tp, "pl": _oracle_pl, "lc": _oracle_lc, "tg": _oracle_tg, "wc": _oracle_wc, "rc": _oracle_rc, "rs": _oracle_rs, "cr": _oracle_cr, "o1": _oracle_o1, "tk": _oracle_tk, "sb": _oracle_sb, "pr": _oracle_pr, "sy": _oracle_sy, "kl": _oracle_kl,
              "uk": _oracle_uk, "sc": _oracle_sc, "sw": _oracle_sw, "fl": _oracle_fl, "e2e": _oracle_e2e}.get(f[0])
        return fn(f, impl) if fn else None
    except (ValueError, IndexError, KeyError) as e:
        return f"oracle could not parse case/output ({e}): {impl[:120]}"


def nontrivial_key(case, impl):
    f = case.split(" ")
    if impl in ("bad-op", None) or impl.startswith(("panic", "CRASH")):
        return None
    if f[0] == "pl":
        return case if not impl.startswith(f[1] + f[2] + " sg=%s rg=%s ex=- " % (f[3], f[4])) else None
    if f[0] == "lc":
        return case if re.search(r"q[lcu]\d|pk\d|w1", impl) else None
    if f[0] in ("tk", "sb", "uk", "pr", "kl"):
        return case if (" d=1" in impl or not impl.startswith(f[1] + f[2])) else None
    if f[0] == "sy":
        return case if re.search(r":[1-9]\d*(,|$)", impl) or impl.count(":") // 2 != (0 if f[1] == "-" else f[1].count(",") + 1) else None
    if f[0] == "sc":
        return case if impl != "w0" else None
    if f[0] == "o1":
        return case if "st" in case and "pa" in case else None
    if f[0] == "cr":
        return case if "a1" in impl else None
    if f[0] == "rs":
        return case if ("e" in f[1] or "r" in f[1]) else None
    if f[0] == "tp":
        return case if ("s" in f[1] or "x" in f[1]) else None
    if f[0] == "tg":
        return case if impl != "set=none" else None
    if f[0] == "sw":
        return case if not impl.startswith("-;-;wake=0") else None
    if f[0] == "fl":
        return case if impl != "un=-" else None
    if f[0] == "e2e":
        m = re.search(r"starts:(\d+)", impl)
        return case if m and int(m.group(1)) > 0 else None
    return case


def describe(cases, impl):
    d = {"ops": {}, "shutdowns": 0, "drains": 0, "destroy_retries": 0, "gave_up": 0, "cancels": 0, "requeues": 0,
         "wakeups": 0, "stale_unlocks": 0, "exits_detected": 0, "stale_lines": 0, "latch_refusals": 0,
         "lock_early_returns": 0, "e2e": []}
    for c, r in zip(cases, impl):
        f = c.split(" ")
        d["ops"][f[0]] = d["ops"].get(f[0], 0) + 1
        if not r:
            continue
        if f[0] in ("tk", "sb", "pr", "kl", "uk") and " d=1" in r:
            d["shutdowns"] += 1
        if f[0] in ("pr", "kl", "uk") and len(f) > 2 and f[2 if f[0] != "kl" else 1] == "r" and re.match(r"[UBIRS]d", r):
            d["drains"] += 1
        if f[0] == "sy":
            d["destroy_retries"] += len(re.findall(r":S:[1-9]", r))
        if f[0] == "kl" and r.endswith("gaveup"):
            d["gave_up"] += 1
        if f[0] == "sw":
            d["cancels"] += len(re.findall(r"qc\d", r))
            d["requeues"] += len(re.findall(r"qu\d", r))
            d["wakeups"] += r.endswith("wake=1")
        if f[0] == "pl":
            d["stale_lines"] += sum(1 for t in f[8].split("/") if t[:1] == "s")
            d["exits_detected"] += " ex=-" not in r
        if f[0] == "lc":
            d["latch_refusals"] += r.count("|w1")
            d["lock_early_returns"] += len(re.findall(r"(?:^|,)qg\d+\|w0", r))
        if f[0] == "fl" and r != "un=-":
            d["stale_unlocks"] += 1
        if f[0] == "e2e":
            kv = _kv(r)
            d["e2e"].append({"case": " ".join(x for x in f[1:] if not x.startswith("seed=")),
                             "final": kv.get("final"), "vms": kv.get("vms"), "restarts": kv.get("restarts"),
                             "ms_to_final": kv.get("ms1"), "ms_to_no_instances": kv.get("ms2"),
                             "retried": kv.get("retried"), "counts": kv.get("counts"), "stub_bugs": kv.get("bugs")})
    return d


def neighbours(case, rng):
    f = case.split(" ")
    out = []
    if f[0] == "tk":
        for ago in (0, 30, 120):
            out.append(" ".join(f[:6] + [str(ago)]))
        for ib in IB:
            out.append(" ".join(f[:2] + [ib] + f[3:]))
    elif f[0] == "pr":
        out += _gen_pr(rng, 6)
        for ago in (0, 30, 120, 240):
            out.append(" ".join(f[:6] + [str(ago)] + f[7:]))
    elif f[0] == "sy":
        out += _gen_sy(rng, 6)
    elif f[0] == "sw":
        g = list(f)
        g[4] = "0" if f[4] == "1" else "1"
        out.append(" ".join(g))
        out += _gen_sw(rng, 4)[-4:]
    elif f[0] == "fl":
        out += _gen_fl(rng, 6)
    elif f[0] == "sc":
        out += _gen_sc(rng, 6)
    elif f[0] == "pl":
        out += _gen_pl(rng, 6)[-6:]
    elif f[0] == "lc":
        items = f[1].split(",")
        for i in range(len(items)):
            if len(items) > 1:
                out.append("lc " + ",".join(items[:i] + items[i + 1:]))
        out += _gen_lc(rng, 4)[-4:]
    elif f[0] == "cr":
        out += ["cr " + "".join(rng.choice("oqrext") for _ in range(rng.randint(1, 6))) for _ in range(6)]
    else:
        out.append(case)
    return out
