"""C09 plugin: saved manifests reproduce the tree and reference only blocks that were stored.

Case line:  fs9 <maxBlockSize> <concurrentWriters> <manifest hex|-> <blocks|-> <op;op;...|->
(format documented in harness/overlay/sdk/go/arvados/zz_verif_c09_test.go).

The oracle is written from the property text and judges only what the IMPLEMENTATION printed:
  * `PlainFS` is a dict-of-bytearrays filesystem; the op history is replayed on it (as in C08) to know
    which directories, names and bytes the live filesystem must hold at every save;
  * `check_grammar` is the published manifest grammar (doc/architecture/manifest-format) plus the one
    extension the property itself demands (empty directories): the marker token `0:0:\\056`;
  * every successful save: text inside the grammar, the second filesystem loaded from it lists exactly
    the plain model's directories/files/bytes, every locator is held by the recording Keep stub (or
    occurs in the initial manifest), total size equal;
  * every save during which a Keep write failed must return the error, the live filesystem must still
    read back the plain model's bytes, and a save during which no write fails must succeed.
"""
import hashlib
import re

ID = "C09"
RULE = ("op histories over a byte-rich name pool (bytes 0x01-0xff except '/'), <=3 directory levels, files of "
        "0..3 blocks, maxBlockSize in {1,2,3,4,7,8,16,64} (+ smoke cases at 64 MiB), starting from empty or from a "
        "generated manifest text (repeated/adjacent locators, hints, zero-length blocks and tokens, split files, "
        "markers), with marshal/sync/flush sprinkled in and Keep failure scripts: none | k-th write | random bits "
        "per op | background-only | final-save-only | all-fail | held (a background flush whose Keep writes stay in "
        "flight while truncates/writes/renames run) | gated (a save with >= 2 writers during which one Keep write fails "
        "while successful ones are still in flight, then overwrites/truncates of the files it covered); plus pure "
        "load->marshal cases and malformed texts; plus `cg9` cases: the real contextGroup + throttle driven through a "
        "driver-imposed schedule (Go/ctx-check/Keep answer ok|fail by arrival/parent cancel/background release/Wait, "
        "capacity 1..4, 1..7 tasks, background writers holding slots) against the micro-step model of Model/C09_Conc; "
        "non-trivial = at least one successful save of a tree holding data, distinct = distinct case line")
ASSUMPTIONS = [
    "background flushes are observed at quiescence (driver waits after every op); with a failure script the "
    "throttle is 1 so background writes reach Keep in the order they were started",
    "when a Keep write fails while sibling writes of the same save are in flight, which siblings were committed "
    "depends on goroutine timing (context cancellation): the Lean theorems cover every assignment of "
    "ok/fail/skip to the block groups; the differential check then compares status and contents exactly and "
    "the manifest text / store modulo block packing (mark m~), and only contents while a failure script is "
    "still active (mark m?)",
    "published grammar = doc/architecture/manifest-format with octal escapes \\ooo, bytes > 0x7f allowed in names, "
    "plus the empty-directory marker token 0:0:\\056 (a file named '.' is otherwise outside the grammar)",
    "a manifest in which a path is both file and directory, or whose tokens are outside the grammar, is outside "
    "'any valid manifest'",
]
TRUSTED = ["executable MD5 in Lean (locators), compared with Go crypto/md5 through every manifest text",
           "the recording Keep stub and the API stub of the Go driver",
           "C08's directory/handle layer model (imported) runs the op histories on the model side",
           "C10's model of loadManifest (imported) loads the saved text on the model side"]

DRIVERS = {"fs": {"kind": "gotest", "pkg": "sdk/go/arvados", "test": "TestVerifC09", "min_chunk": 20,
                  "isolate": True}}

BLOCKS = [1, 2, 3, 4, 7, 8, 16, 64]
PROD = 1 << 26
EMPTY_LOC = b"d41d8cd98f00b204e9800998ecf8427e+0"
MARKER = b"0:0:\\056"


def channel(case):
    return "fs"


# ----------------------------------------------------------------------------- published grammar

LOC_RE = re.compile(rb"^[0-9a-f]{32}\+([0-9]+)(\+[A-Z][-A-Za-z0-9@_]*)*$")
FTOK_RE = re.compile(rb"^([0-9]+):([0-9]+):(.+)$", re.S)


def unescape(tok):
    """\\ooo -> byte; None if a backslash does not start such an escape"""
    out = bytearray()
    i = 0
    while i < len(tok):
        c = tok[i]
        if c == 0x5c:
            d = tok[i + 1:i + 4]
            if len(d) == 3 and d[0] in b"0123" and d[1] in b"01234567" and d[2] in b"01234567":
                out.append(int(d, 8))
                i += 4
                continue
            return None
        out.append(c)
        i += 1
    return bytes(out)


def check_grammar(text):
    """-> (streams, None) or (None, reason). A stream is (dir components, [(locator, size)], [(pos, len, name
    components or None for the empty-directory marker)])."""
    if text == b"":
        return [], None
    if not text.endswith(b"\n"):
        return None, "no trailing newline"
    streams = []
    for ln, line in enumerate(text[:-1].split(b"\n"), 1):
        toks = line.split(b" ")
        for t in toks:
            if t == b"":
                return None, "line %d: empty token" % ln
            for c in t:
                if c <= 0x20:
                    return None, "line %d: raw control/whitespace byte 0x%02x" % (ln, c)
                if c == 0x7f:
                    return None, "line %d: raw 0x7f in a token" % ln
        name = unescape(toks[0])
        if name is None:
            return None, "line %d: bad escape in stream name" % ln
        comps = name.split(b"/")
        if comps[0] != b"." or any(c in (b"", b".", b"..") for c in comps[1:]):
            return None, "line %d: bad stream name %r" % (ln, name)
        i = 1
        blocks = []
        while i < len(toks):
            m = LOC_RE.match(toks[i])
            if not m:
                break
            blocks.append((toks[i], int(m.group(1))))
            i += 1
        if not blocks:
            return None, "line %d: no locator" % ln
        if i == len(toks):
            return None, "line %d: no file token" % ln
        total = sum(s for _, s in blocks)
        files = []
        for t in toks[i:]:
            m = FTOK_RE.match(t)
            if not m:
                return None, "line %d: bad file token %r" % (ln, t)
            pos, ln_ = int(m.group(1)), int(m.group(2))
            if pos + ln_ > total:
                return None, "line %d: file token %r outside the %d-byte stream" % (ln, t, total)
            if t == MARKER:
                files.append((0, 0, None))
                continue
            fname = unescape(m.group(3))
            if fname is None:
                return None, "line %d: bad escape in file name" % ln
            fc = fname.split(b"/")
            if any(c in (b"", b".", b"..") for c in fc):
                return None, "line %d: bad file name %r" % (ln, fname)
            files.append((pos, ln_, fc))
        streams.append((comps[1:], blocks, files))
    return streams, None


# ----------------------------------------------------------------------------- plain model

class Ino:
    def __init__(self, is_dir, name):
        self.is_dir = is_dir
        self.name = name
        self.data = bytearray()
        self.kids = {}
        self.parent = None


class Hnd:
    def __init__(self, ino, rd, wr, app):
        self.ino, self.rd, self.wr, self.app, self.pos = ino, rd, wr, app, 0


FAIL, OK, EITHER = "fail", "ok", "either"
SPECIAL = (b"", b".", b"..")


class PlainFS:
    def __init__(self):
        self.root = Ino(True, b".")
        self.root.parent = self.root
        self.h = {}

    def resolve(self, path):
        node = self.root
        for c in path.split(b"/"):
            if node.is_dir:
                if c in (b"", b"."):
                    continue
                if c == b"..":
                    node = node.parent
                    continue
                node = node.kids.get(c)
                if node is None:
                    return None
            else:
                return None
        return node

    def split(self, path):
        i = path.rfind(b"/")
        d, base = path[:i + 1], path[i + 1:]
        p = self.resolve(d)
        if p is not None and not p.is_dir:
            p = None
        return p, base

    def mkdirs(self, comps):
        node = self.root
        for c in comps:
            k = node.kids.get(c)
            if k is None:
                k = Ino(True, c)
                k.parent = node
                node.kids[c] = k
            elif not k.is_dir:
                return None
            node = k
        return node

    def load(self, streams, blockdata):
        """streams from check_grammar; blockdata: md5 hex -> bytes. -> 'ok' | 'conflict' | 'unknown-block'"""
        for dcomps, blocks, files in streams:
            data = bytearray()
            for loc, size in blocks:
                b = blockdata.get(loc[:32].decode())
                if b is None or len(b) != size:
                    return "unknown-block"
                data += b
            for pos, ln, fc in files:
                if fc is None:
                    if self.mkdirs(dcomps) is None:
                        return "conflict"
                    continue
                d = self.mkdirs(dcomps + fc[:-1])
                if d is None:
                    return "conflict"
                k = d.kids.get(fc[-1])
                if k is None:
                    k = Ino(False, fc[-1])
                    d.kids[fc[-1]] = k
                elif k.is_dir:
                    return "conflict"
                k.data += data[pos:pos + ln]
        return "ok"

    def listing(self):
        out = []

        def walk(ino, path):
            for n, k in ino.kids.items():
                p = path + [n]
                hp = b"/".join(p).hex()
                if k.is_dir:
                    out.append("d." + hp)
                    walk(k, p)
                else:
                    out.append("f.%s.%d.%s" % (hp, len(k.data), hashlib.md5(bytes(k.data)).hexdigest()[:12]))
        walk(self.root, [])
        return ",".join(sorted(out)) or "-"

    def total(self):
        def walk(ino):
            return sum(walk(k) if k.is_dir else len(k.data) for k in ino.kids.values())
        return walk(self.root)

    def has_data(self):
        return self.total() > 0


def is_ancestor_or_self(a, d):
    while True:
        if d is a:
            return True
        if d.parent is d:
            return False
        d = d.parent


def unpath(s):
    return b"" if s == "@" else bytes.fromhex(s)


def judge(fs, op, res):
    """Apply a plain (non-save) op to the plain model given the implementation's result; None if the
    result is what a plain filesystem allows, else a reason."""
    a = op.split(",")
    f = res.split(",")
    kind = a[0]

    def expect(exp, got_ok, what):
        if exp == EITHER:
            return None
        if exp == OK and not got_ok:
            return "%s must succeed in the plain model but failed with %s" % (what, res)
        if exp == FAIL and got_ok:
            return "%s must fail in the plain model but succeeded" % what
        return None

    if kind in ("open", "create"):
        path = unpath(a[2])
        flags = "Bct" if kind == "create" else a[3]
        acc, mods = flags[0], flags[1:]
        got_ok = res == "ok"
        rd, wr = acc in "RB", acc in "WB"
        parent, base = fs.split(path)
        if "s" in mods or acc == "N":
            return "open with O_SYNC / invalid access mode succeeded" if got_ok else None
        if parent is None:
            return expect(FAIL, got_ok, "open below a missing path")
        if base in SPECIAL:
            node = parent if base in (b"", b".") else parent.parent
            if wr:
                return expect(FAIL, got_ok, "opening a directory for writing")
            if got_ok:
                fs.h[a[1]] = Hnd(node, False, False, False)
            return None
        node = parent.kids.get(base)
        if node is None:
            if "c" not in mods:
                return expect(FAIL, got_ok, "open of a missing path without O_CREATE")
            if not got_ok:
                return "creating %r must succeed in the plain model but failed with %s" % (path, res)
            node = Ino("d" in mods, base)
            node.parent = parent
            parent.kids[base] = node
            fs.h[a[1]] = Hnd(node, rd, wr, "a" in mods)
            return None
        if "x" in mods:
            return expect(FAIL, got_ok, "O_EXCL open of an existing target")
        if "t" in mods and (not wr or node.is_dir):
            return "O_TRUNC on a read-only handle or a directory succeeded" if got_ok else None
        if not got_ok:
            return "open of existing %r must succeed in the plain model but failed with %s" % (path, res)
        if "t" in mods:
            node.data = bytearray()
        fs.h[a[1]] = Hnd(node, rd, wr, "a" in mods)
        return None

    if kind in ("write", "readn", "seek", "trunc", "close"):
        h = fs.h.get(a[1])
        if h is None:
            return None if res == "nohandle" else "operation on a handle that was never opened succeeded"
        if res == "nohandle":
            return "the handle's open succeeded in the plain model but the implementation has no such handle"
        ino = h.ino
        if kind == "close":
            del fs.h[a[1]]
            return None if res == "ok" else "close failed"
        if ino.is_dir:
            if kind == "seek":
                if f[1] == "ok":
                    h.pos = int(f[0])
                return None
            if kind == "trunc":
                return None if res != "ok" else "truncate of a directory succeeded"
            return None if f[-1] != "ok" else "read/write on a directory handle succeeded"
        if kind == "write":
            data = bytes.fromhex(a[2])
            n, err = int(f[0]), f[1]
            if not h.wr:
                return None if (n == 0 and err != "ok") else "write through a read-only handle must fail"
            if err != "ok" or n != len(data):
                return "write of %d bytes returned n=%d err=%s" % (len(data), n, err)
            if h.app:
                h.pos = len(ino.data)
            if h.pos > len(ino.data):
                ino.data += bytes(h.pos - len(ino.data))
            ino.data[h.pos:h.pos + len(data)] = data
            h.pos += len(data)
            return None
        if kind == "readn":
            got, err = bytes.fromhex(f[0]), f[1]
            want_n = int(a[2])
            if want_n == 0:
                return None if (len(got) == 0 and err == "ok") else "driver loop artefact expected for readn 0"
            if not h.rd:
                return None if (len(got) == 0 and err not in ("ok", "eof")) else "read through a write-only handle must fail"
            avail = bytes(ino.data[h.pos:h.pos + want_n])
            if err not in ("ok", "eof"):
                return "read failed with " + err
            if got != avail:
                return "read returned %s, the plain model has %s at offset %d" % (got.hex(), avail.hex(), h.pos)
            if (err == "eof") != (len(avail) < want_n):
                return "read of %d bytes at offset %d of %d: EOF flag %s" % (want_n, h.pos, len(ino.data), err)
            h.pos += len(got)
            return None
        if kind == "seek":
            off, whence = int(a[2]), int(a[3])
            base = {0: 0, 1: h.pos, 2: len(ino.data)}[whence]
            t = base + off
            if t < 0:
                return None if f[1] != "ok" else "seek to a negative offset succeeded"
            if f[1] != "ok" or int(f[0]) != t:
                return "seek returned %s, plain model says %d" % (res, t)
            h.pos = t
            return None
        if kind == "trunc":
            size = int(a[2])
            if res != "ok":
                return "truncate failed with " + res
            if size < len(ino.data):
                del ino.data[size:]
            else:
                ino.data += bytes(size - len(ino.data))
            return None

    if kind == "mkdir":
        parent, base = fs.split(unpath(a[1]))
        got_ok = res == "ok"
        if parent is None:
            return expect(FAIL, got_ok, "mkdir below a missing path")
        if base in SPECIAL or base in parent.kids:
            return expect(FAIL, got_ok, "mkdir of an existing target")
        if not got_ok:
            return "mkdir must succeed in the plain model but failed with " + res
        k = Ino(True, base)
        k.parent = parent
        parent.kids[base] = k
        return None

    if kind == "rename":
        got_ok = res == "ok"
        op_, ob = fs.split(unpath(a[1]))
        np_, nb = fs.split(unpath(a[2]))
        if ob in SPECIAL:
            return expect(FAIL, got_ok, "rename of '.', '..' or ''")
        if op_ is None or ob not in op_.kids:
            return expect(FAIL, got_ok, "rename of a missing path")
        if nb in (b".", b".."):
            return expect(FAIL, got_ok, "rename onto '.' or '..'")
        if np_ is None:
            return expect(FAIL, got_ok, "rename into a missing directory")
        if nb == b"":
            nb = ob
        node = op_.kids[ob]
        if node.is_dir and is_ancestor_or_self(node, np_):
            return expect(FAIL, got_ok, "directory moved into itself")
        ex = np_.kids.get(nb)
        if ex is not None and ex.is_dir:
            return expect(FAIL, got_ok, "rename onto an existing directory")
        if not got_ok:
            return "rename must succeed in the plain model but failed with " + res
        if ex is node:
            return "self-rename"      # C08's known finding F12; never generated here
        del op_.kids[ob]
        np_.kids[nb] = node
        node.name = nb
        if node.is_dir:
            node.parent = np_
        return None

    if kind in ("remove", "removeall"):
        got_ok = res == "ok"
        path = unpath(a[1]).rstrip(b"/")
        parent, base = fs.split(path)
        if base in SPECIAL:
            return expect(FAIL, got_ok, "remove of '', '.' or '..'")
        if parent is None:
            return expect(EITHER if kind == "removeall" else FAIL, got_ok, "remove below a missing path")
        node = parent.kids.get(base)
        if node is None:
            return expect(OK if kind == "removeall" else FAIL, got_ok, "remove of a missing path")
        if kind == "remove" and node.is_dir and node.kids:
            return expect(FAIL, got_ok, "remove of a non-empty directory")
        if not got_ok:
            return "remove must succeed in the plain model but failed with " + res
        del parent.kids[base]
        return None

    if kind == "shapes":
        return None if res.startswith("s=:") else "shapes answered " + res[:40]
    if kind == "release":
        return None if res == "ok" else "release answered " + res
    if kind in ("flush", "hflush"):
        node = fs.resolve(unpath(a[1]))
        if node is None or not node.is_dir:
            return None if res != "ok" else "flush of a missing directory succeeded"
        return None if res == "ok" else "flush failed with " + res

    if kind == "keep":
        return None if res == "ok" else "keep op answered " + res
    return "unknown op " + kind


def parse_save(res):
    """m=:<status>:<calls>.<fails>:<live>:<reload>:<store> -> dict or None"""
    f = res.split(":")
    if len(f) != 6 or not f[0].startswith("m") or len(f[0]) not in (2, 3):
        return None
    try:
        calls, fails = f[2].split(".")
        d = {"flag": f[0][1], "valid": f[0][2:], "status": f[1], "calls": int(calls), "fails": int(fails), "live": f[3],
             "reload": f[4], "store": f[5]}
    except ValueError:
        return None
    d["cls"] = f[1].split(".")[0]
    if d["cls"] == "ok":
        t = f[1][3:]
        try:
            d["text"] = b"" if t == "-" else bytes.fromhex(t)
        except ValueError:
            return None
    return d


def case_fields(case):
    f = case.split(" ")
    text = b"" if f[3] == "-" else bytes.fromhex(f[3])
    blocks = [] if f[4] == "-" else [bytes.fromhex("" if b == "_" else b) for b in f[4].split(",")]
    ops = [] if f[5] == "-" else f[5].split(";")
    return int(f[1]), int(f[2]), text, blocks, ops


def judge_save(fs, d, init_locs):
    """the property, for one save result of the implementation"""
    want = fs.listing()
    if d["status"].startswith(("other", "panic")):
        return "save answered %s" % d["status"]
    if d["live"] != want:
        return ("after a %s save the live filesystem lists %s, the plain model %s"
                % ("failed" if d["cls"] != "ok" else "successful", d["live"][:300], want[:300]))
    if d["fails"] > 0 and d["cls"] == "ok":
        return "%d Keep write(s) failed during the save but it returned no error" % d["fails"]
    if d["fails"] == 0 and d["cls"] != "ok":
        return "the save failed although no Keep write failed"
    if d["cls"] != "ok":
        return None
    streams, why = check_grammar(d["text"])
    if streams is None:
        return "saved manifest is outside the grammar: " + why
    if d["reload"] != want:
        return ("a filesystem loaded from the saved manifest lists %s, the live tree is %s (manifest %r)"
                % (d["reload"][:300], want[:300], d["text"][:300]))
    held = set(d["store"].split(",")) if d["store"] != "-" else set()
    for _, blocks, _ in streams:
        for loc, size in blocks:
            key = "%s+%d" % (loc[:12].decode(), size)
            if key not in held and loc not in init_locs and not (loc == EMPTY_LOC):
                return "locator %s is neither in the original manifest nor held by Keep" % loc.decode()
    return None


def replay(case, impl):
    """-> reason or None"""
    maxb, cw, text, blocks, ops = case_fields(case)
    if impl.startswith(("panic", "CRASH", "bad-op")):
        return "implementation " + impl[:200]
    parts = impl.split(";")
    streams, why = check_grammar(text)
    fs = PlainFS()
    blockdata = {hashlib.md5(b).hexdigest(): b for b in blocks}
    loaded = "invalid" if streams is None else fs.load(streams, blockdata)
    if parts[0] == "load=err":
        return "a valid manifest failed to load" if loaded == "ok" else None
    if loaded != "ok":
        return None      # lenient acceptance outside 'any valid manifest': contents are not specified
    init_locs = set(loc for _, bl, _ in streams for loc, _ in bl)
    if "hang" in parts:
        i = parts.index("hang") - 1
        return ("op %d (%s): did not return (a Keep write slot stays taken or the call blocks for ever): "
                "a later save cannot succeed" % (i, ops[i][:60] if 0 <= i < len(ops) else "?"))
    if len(parts) != len(ops) + 1:
        return "result count %d for %d ops" % (len(parts) - 1, len(ops))
    for i, (op, r) in enumerate(zip(ops, parts[1:])):
        if op in ("marshal", "sync") or op.startswith("hmarshal,"):
            d = parse_save(r)
            if d is None:
                return "op %d (%s): unparsable result %s" % (i, op, r[:100])
            why = judge_save(fs, d, init_locs)
        else:
            why = judge(fs, op, r)
        if why:
            return "op %d (%s): %s" % (i, op[:60], why)
    return None


def cg_oracle(case, impl):
    """`cg9` cases: the property's clauses about a save whose block writes run under contextGroup + throttle,
    judged on what the driver observed of the real code (never on the model)."""
    f = case.split(" ")
    if impl.startswith(("panic", "CRASH", "bad-op")):
        return "implementation " + impl[:200]
    d = dict(kv.split("=", 1) for kv in impl.split(";") if "=" in kv)
    evs = [] if f[4] == "-" else f[4].split(",")
    w = d.get("wait", "?")
    if w == "hang":
        return "the group never finished (a slot stays taken or a goroutine blocks for ever): a later save cannot succeed"
    if w.startswith("early"):
        return ("Wait returned (%s) while funcs it started were still running / Keep writes in flight: the save would "
                "return before its writes are settled" % w)
    if w == "nil" and int(d.get("fails", "0")) > 0:
        return "a required block write failed but the save returned no error"
    if w in ("nil", "ctx") or w.startswith("E"):
        left = max(0, int(f[3]) - evs.count("B"))
        if int(d.get("inuse", "-1")) != left:
            return ("after the save returned %s write slot(s) are taken but only %d background writer(s) are left: "
                    "a later save can block" % (d.get("inuse"), left))
    return None


def oracle(case, impl):
    if case.startswith("cg9 "):
        return cg_oracle(case, impl)
    return replay(case, impl)


def finding_of(case, impl, why):
    """F9a: manifestEscape leaves byte 0x7f (DEL, a control code) unescaped. Matched only when the oracle's
    complaint is exactly that and some name in the case holds a 0x7f byte."""
    if case.startswith("cg9 "):
        return None
    if why and "saved manifest is outside the grammar" in why and "raw 0x7f in a token" in why:
        _, _, text, _, ops = case_fields(case)
        if b"\x7f" in text or any("7f" in a for op in ops for a in op.split(",")[1:]):
            return "F9a"
    return None


def compare(case, impl, model):
    if impl == model:
        return True
    ip, mp = impl.split(";"), model.split(";")
    if len(ip) != len(mp):
        return False
    for a, b in zip(ip, mp):
        if b.startswith("s~:"):
            continue          # segment shapes after a timing-dependent event: not comparable
        if not b.startswith("m") or ":" not in b:
            if a != b:
                return False
            continue
        da, db = parse_save(a), parse_save(b)
        if da is None or db is None:
            return False
        flag = db["flag"]
        if db["cls"] == "ok":
            # the Lean grammar predicate and the oracle's grammar check must agree on the model's own text
            if db["valid"] not in ("0", "1") or (db["valid"] == "1") != (check_grammar(db["text"])[0] is not None):
                return False
        if flag == "=":
            if a != "m=:" + b.split(":", 1)[1]:
                return False
        elif flag == "~":
            if da["cls"] != db["cls"] or da["live"] != db["live"] or da["reload"] != db["reload"]:
                return False
        elif flag == "?":
            if da["live"] != db["live"]:
                return False
            if da["cls"] == "ok" and db["cls"] == "ok" and da["reload"] != db["reload"]:
                return False
        else:
            return False
    return True


def nontrivial_key(case, impl):
    if case.startswith("cg9 "):
        return hashlib.md5(case.encode()).hexdigest() if impl and ";arr=" in impl and ";arr=0;" not in impl else None
    if not impl or not impl.startswith("load=ok"):
        return None
    for r in impl.split(";")[1:]:
        if r.startswith("m=:ok.") and ":f." in r.replace(",f.", ":f."):
            return hashlib.md5(case.encode()).hexdigest()
    return None


# ----------------------------------------------------------------------------- generator

PLAIN = [b"a", b"b", b"c", b"d", b"e", b"f"]
ODD = [b"a b", b"x:y", b"back\\slash", b"\\056", b"tab\there", b"nl\nx", b"\x01", b"\xff\xfe", b"caf\xc3\xa9",
       b"...", b"..a", b".hid", b"q\\040r", b" ", b"\\", b":", b"a\x80", b"\xc3", b"d41d8cd98f00b204e9800998ecf8427e+0",
       b"0:0:x", b"\r", b"%20", b"long" * 9]


def _name(rng, odd):
    if rng.random() < odd:
        if rng.random() < 0.7:
            return rng.choice(ODD)
        n = rng.randint(1, 4)
        return bytes(rng.choice([c for c in range(1, 256) if c not in (0x2f, 0x7f)]) for _ in range(n))
    return rng.choice(PLAIN)


def _esc(name):
    return b"".join(b"\\%03o" % c if (c <= 0x20 or c in (0x3a, 0x5c)) else bytes([c]) for c in name)


def _esc2(rng, name):
    """mostly the canonical escape; sometimes a spelling with more `\\ooo` escapes than needed (any byte may be
    written as an escape: the grammar and manifestUnescape accept them all, `/` and the leading `.` included)"""
    if rng.random() >= 0.08:
        return _esc(name)
    return b"".join(b"\\%03o" % c if (c <= 0x20 or c in (0x3a, 0x5c) or rng.random() < 0.35) else bytes([c]) for c in name)


def _gen_manifest(rng, odd):
    """a manifest text inside the grammar (mostly) and its blocks"""
    blocks_all = []
    lines = []
    taken = {}     # path tuple -> 'f' / 'd'

    def claim(comps, kind):
        for i in range(1, len(comps)):
            if taken.get(tuple(comps[:i]), "d") != "d":
                return False
        if taken.get(tuple(comps), kind) != kind:
            return False
        if kind == "f" and any(k[:len(comps)] == tuple(comps) and len(k) > len(comps) for k in taken):
            return False
        for i in range(1, len(comps)):
            taken[tuple(comps[:i])] = "d"
        taken[tuple(comps)] = kind
        return True

    for _ in range(rng.choice([1, 1, 2, 3, 4])):
        depth = rng.choice([0, 0, 1, 1, 2])
        dcomps = [_name(rng, odd) for _ in range(depth)]
        if not claim(dcomps, "d") and dcomps:
            if rng.random() < 0.3:
                # a marker for a path that is (or lies below) a file: outside "no path is both file and directory";
                # model and implementation must still agree on what loadManifest does with it
                lines.append(_esc2(rng, b"/".join([b"."] + dcomps)) + b" " + EMPTY_LOC + b" " + MARKER)
            continue
        if dcomps and rng.random() < 0.18:
            r = rng.random()
            if r < 0.8:
                lines.append(_esc2(rng, b"/".join([b"."] + dcomps)) + b" " + EMPTY_LOC + b" " + MARKER)
            else:
                # lenient spellings the loader accepts: the marker token behind a real block
                b = bytes(rng.getrandbits(8) for _ in range(rng.choice([0, 1, 3])))
                blocks_all.append(b)
                lines.append(_esc2(rng, b"/".join([b"."] + dcomps)) + b" " +
                             ("%s+%d" % (hashlib.md5(b).hexdigest(), len(b))).encode() + b" " + MARKER)
            continue
        blocks = []
        for _ in range(rng.choice([1, 1, 2, 3, 4])):
            n = rng.choice([0, 1, 2, 3, 5, 8, 13, 20])
            b = bytes(rng.getrandbits(8) for _ in range(n))
            if blocks and rng.random() < 0.25:
                b = rng.choice(blocks)       # repeated (often adjacent) locator
            blocks.append(b)
        total = sum(len(b) for b in blocks)
        locs = []
        for b in blocks:
            loc = ("%s+%d" % (hashlib.md5(b).hexdigest(), len(b))).encode()
            r = rng.random()
            if r < 0.15:
                loc += b"+A" + hashlib.sha1(b).hexdigest().encode() + b"@5f000000"
            elif r < 0.2:
                loc += b"+Z"
            locs.append(loc)
        toks = []
        for _ in range(rng.choice([1, 2, 3, 4])):
            fc = [_name(rng, odd)]
            if rng.random() < 0.12:
                fc = [_name(rng, odd)] + fc
            if not claim(dcomps + fc, "f"):
                continue
            for _ in range(rng.choice([1, 1, 1, 2, 3])):       # a file may be split over several tokens
                o = rng.randint(0, total)
                ln = rng.choice([0, rng.randint(0, total - o), total - o])
                toks.append(b"%d:%d:%s" % (o, ln, _esc2(rng, b"/".join(fc))))
        if not toks:
            continue
        if rng.random() < 0.04:
            toks.append(MARKER)          # the marker token among file tokens (lenient region of the loader)
        rng.shuffle(toks) if rng.random() < 0.3 else None
        blocks_all += blocks
        lines.append(_esc2(rng, b"/".join([b"."] + dcomps)) + b" " + b" ".join(locs) + b" " + b" ".join(toks))
    text = b"".join(l + b"\n" for l in lines)
    return text, blocks_all


def _mutate_text(rng, text):
    if not text:
        return rng.choice([b"\n", b". \n", b"x", b". d41d8cd98f00b204e9800998ecf8427e+0\n"])
    r = rng.random()
    b = bytearray(text)
    if r < 0.3:
        i = rng.randrange(len(b))
        b[i] = rng.choice([0x20, 0x0a, 0x3a, 0x2b, 0x2f, 0x5c, 0x30, 0x7a])
    elif r < 0.5:
        i = rng.randrange(len(b))
        del b[i:i + rng.randint(1, 4)]
    elif r < 0.65:
        b = b[:-1]
    elif r < 0.8:
        i = rng.randrange(len(b))
        b[i:i] = rng.choice([b" ", b"\n", b"9999", b":", b"/", b"/../", b" 0:1:zz"])
    else:
        i = rng.randrange(len(b))
        b[i:i] = b" 0:0:."
    return bytes(b)


def _data(rng, maxb):
    lim = min(maxb, 64)
    n = rng.choice([0, 1, 1, 2, lim // 2, lim // 2 + 1, lim - 1, lim, lim + 1, 2 * lim, 2 * lim + 1, 3 * lim,
                    rng.randint(0, 3 * lim)])
    return bytes(rng.getrandbits(8) for _ in range(max(0, n)))


def _hp(p):
    return p.hex() if p else "@"


def _paths(fs):
    dirs, files = [], []

    def walk(ino, p):
        for n, k in sorted(ino.kids.items()):
            q = (p + b"/" + n) if p else n
            if k.is_dir:
                dirs.append(q)
                if q.count(b"/") < 3:
                    walk(k, q)
            else:
                files.append(q)
    walk(fs.root, b"")
    return dirs, files


def _pick_path(rng, fs, want, odd):
    dirs, files = _paths(fs)
    r = rng.random()
    if want == "file" and files and r < 0.7:
        p = rng.choice(files)
    elif want == "dir" and dirs and r < 0.75:
        p = rng.choice(dirs)
    elif want == "any" and (files or dirs) and r < 0.7:
        p = rng.choice(files + dirs)
    else:
        shallow = [d for d in dirs if d.count(b"/") < 2]
        base = rng.choice(shallow) + b"/" if shallow and rng.random() < 0.55 else b""
        p = base + _name(rng, odd)
    r = rng.random()
    if r < 0.02:
        p = p + b"/"
    elif r < 0.04:
        p = b"/" + p
    elif r < 0.06:
        p = b"./" + p
    elif r < 0.07:
        p = p + b"/.."
    elif r < 0.08:
        p = p + b"/" + _name(rng, odd)
    return p


FLAGSETS = ["R", "W", "B", "Bc", "Wc", "Bct", "Wct", "Wa", "Ba", "Bca", "Wca", "Bcx", "Wcx", "Bt", "Wt", "Bcd"]
MODES = ["none", "none", "none", "kth", "bits", "background", "final", "allfail", "held", "gated"]


def _script(rng):
    r = rng.random()
    if r < 0.35:
        return "k%d" % rng.choice([1, 1, 2, 2, 3, 4, 6])
    if r < 0.7:
        n = rng.randint(1, 6)
        return "b" + "".join(rng.choice("0011" if rng.random() < 0.5 else "0001") for _ in range(n))
    if r < 0.85:
        return "fail"
    return "b1"


def _gen_case(rng, tier, maxb=None, nops=None, mode=None, odd=None, del7f=False):
    maxb = maxb or rng.choice(BLOCKS)
    mode = mode or rng.choice(MODES)
    odd = rng.choice([0.0, 0.15, 0.15, 0.5]) if odd is None else odd
    cw = 4 if mode == "none" else 1000 if mode == "held" else rng.choice([2, 4, 1000, 1000]) if mode == "gated" else 1
    holding = [False]      # mode "held": Keep writes of a background flush are in flight
    text, blocks = (_gen_manifest(rng, odd) if rng.random() < 0.4 else (b"", []))
    fs = PlainFS()
    streams, _ = check_grammar(text)
    blockdata = {hashlib.md5(b).hexdigest(): b for b in blocks}
    if streams is None or fs.load(streams, blockdata) != "ok":
        text, blocks, fs = b"", [], PlainFS()
    if nops is None:
        hi = 90 if tier == "quick" else 200
        nops = rng.choice([rng.randint(4, 25), rng.randint(8, 40), rng.randint(20, hi)])
    ops = []
    next_h = [0]

    def sim(op, res="ok"):
        judge(fs, op, res)

    def open_handles():
        return [k for k, h in fs.h.items() if not h.ino.is_dir and h.wr]

    if mode == "kth":
        ops.append("keep,k%d" % rng.choice([1, 2, 3, 4, 5, 7, 10, 15]))
    elif mode == "allfail" and rng.random() < 0.5:
        ops.append("keep,fail")
    failing = mode in ("allfail",) and ops == ["keep,fail"]
    while len(ops) < nops:
        r = rng.random()
        hs = open_handles()
        if r < 0.20 or (not hs and r < 0.6):
            if len(fs.h) >= 8:
                h = rng.choice(list(fs.h))
                ops.append("close,%s" % h)
                sim(ops[-1])
                continue
            h = next_h[0]
            next_h[0] += 1
            p = _pick_path(rng, fs, "file", odd)
            if del7f and rng.random() < 0.5:
                p = p + b"\x7f"
            if rng.random() < 0.15:
                op = "create,%d,%s" % (h, _hp(p))
            else:
                op = "open,%d,%s,%s" % (h, _hp(p), rng.choice(FLAGSETS[:11] if rng.random() < 0.85 else FLAGSETS))
            ops.append(op)
            sim(op)
        elif r < 0.55 and hs:
            h = rng.choice(hs)
            if mode in ("bits", "background") and rng.random() < 0.6:
                ops.append("keep," + _script(rng))
            ops.append("write,%s,%s" % (h, _data(rng, maxb).hex()))
            hd = fs.h[h]
            sim(ops[-1], "%d,ok" % (len(ops[-1].split(",")[2]) // 2))
            if mode == "background" and rng.random() < 0.5:
                ops.append("keep,ok")
        elif r < 0.63 and hs:
            h = rng.choice(hs)
            hd = fs.h[h]
            size = len(hd.ino.data)
            lim = min(maxb, 64)
            off = rng.choice([0, size, size + 1, size + lim, rng.randint(0, size + 1), rng.randint(0, size + 2 * lim)])
            ops.append("seek,%s,%d,0" % (h, off))
            sim(ops[-1], "%d,ok" % off)
        elif r < 0.69 and hs:
            h = rng.choice(hs)
            cur = len(fs.h[h].ino.data)
            lim = min(maxb, 64)
            size = max(0, rng.choice([0, 1, lim, lim + 1, 2 * lim, 3 * lim, cur, cur + 1, cur - 1, cur + lim, cur - lim,
                                      rng.randint(0, 3 * lim)]))
            ops.append("trunc,%s,%d" % (h, size))
            sim(ops[-1])
        elif r < 0.72 and fs.h:
            ops.append("close,%s" % rng.choice(list(fs.h)))
            sim(ops[-1])
        elif r < 0.79:
            p = _pick_path(rng, fs, "new", odd)
            if del7f and rng.random() < 0.3:
                p = p + b"\x7f"
            ops.append("mkdir,%s" % _hp(p))
            sim(ops[-1])
        elif r < 0.84:
            src = _pick_path(rng, fs, "any", odd)
            dst = _pick_path(rng, fs, rng.choice(["new", "new", "any", "dir"]), odd)
            a_, b_ = fs.split(src), fs.split(dst)
            if a_[0] is not None and a_[0] is b_[0] and (b_[1] or a_[1]) == a_[1]:
                continue        # rename onto itself: C08's known finding F12, kept out
            ops.append("rename,%s,%s" % (_hp(src), _hp(dst)))
            sim(ops[-1])
        elif r < 0.88:
            ops.append("%s,%s" % (rng.choice(["remove", "remove", "removeall"]), _hp(_pick_path(rng, fs, "any", odd))))
            sim(ops[-1])
        elif r < 0.92 or (mode in ("held", "gated") and r < 0.97 and not holding[0]):
            if mode == "bits" and rng.random() < 0.5:
                ops.append("keep," + _script(rng))
            p = _pick_path(rng, fs, "dir", odd) if rng.random() < 0.5 else b""
            if mode in ("held", "gated") and not holding[0] and rng.random() < 0.8:
                if mode == "held":
                    # hold the Keep writes of this background flush while a few more ops run
                    ops.append("hflush,%s,%d" % (_hp(p if rng.random() < 0.3 else b""), rng.choice([1, 1, 0])))
                else:
                    # a save with several Keep writes under way, one of which fails while successful ones are
                    # still in flight; the ops that follow must find the files exactly as the failed save left them
                    ops.append("hmarshal," + rng.choice(["k1", "k2", "k2", "k3", "k4", "b01", "b011", "b0101", "b001",
                                                         "ok", _script(rng)]))
                holding[0] = True
                for _ in range(rng.randint(1, 6)):
                    hs2 = open_handles()
                    q = rng.random()
                    if hs2 and q < 0.45:
                        h = rng.choice(hs2)
                        cur = len(fs.h[h].ino.data)
                        lim = min(maxb, 64)
                        size = max(0, rng.choice([cur + 1, cur + 2, cur + lim // 2, cur + lim, cur - 1, cur - 2, 0, cur // 2,
                                                  rng.randint(0, cur + lim)]))
                        ops.append("trunc,%s,%d" % (h, size))
                        sim(ops[-1])
                    elif hs2 and q < 0.75:
                        h = rng.choice(hs2)
                        if rng.random() < 0.5:
                            size = len(fs.h[h].ino.data)
                            off = rng.choice([0, size, rng.randint(0, size + 2)])
                            ops.append("seek,%s,%d,0" % (h, off))
                            sim(ops[-1], "%d,ok" % off)
                        ops.append("write,%s,%s" % (h, _data(rng, maxb).hex()))
                        sim(ops[-1], "%d,ok" % (len(ops[-1].split(",")[2]) // 2))
                    elif q < 0.85:
                        ops.append("flush,%s,%d" % (_hp(b""), rng.randint(0, 1)))
                    elif q < 0.93:
                        src = _pick_path(rng, fs, "any", odd)
                        dst = _pick_path(rng, fs, "new", odd)
                        a_, b_ = fs.split(src), fs.split(dst)
                        if not (a_[0] is not None and a_[0] is b_[0] and (b_[1] or a_[1]) == a_[1]):
                            ops.append("rename,%s,%s" % (_hp(src), _hp(dst)))
                            sim(ops[-1])
                    else:
                        ops.append("remove,%s" % _hp(_pick_path(rng, fs, "file", odd)))
                        sim(ops[-1])
                ops.append("release")
                holding[0] = False
                if rng.random() < 0.7:
                    ops.append("marshal")
                continue
            ops.append("flush,%s,%d" % (_hp(p), rng.randint(0, 1)))
        elif r < 0.97:
            if mode == "bits" and rng.random() < 0.6:
                ops.append("keep," + _script(rng))
            elif mode == "background":
                ops.append("keep,ok")
            ops.append(rng.choice(["marshal", "marshal", "sync"]))
            if mode == "bits" and rng.random() < 0.5:
                ops += ["keep,ok", "marshal"]
        elif hs:
            h = rng.choice(hs)
            if fs.h[h].rd:
                ops.append("seek,%s,0,0" % h)
                sim(ops[-1], "0,ok")
                n = len(fs.h[h].ino.data) + 3
                ops.append("readn,%s,%d" % (h, n))
                fs.h[h].pos = len(fs.h[h].ino.data)
    # the final save(s)
    if mode == "final":
        ops += ["keep,ok", "flush,@,0"] if rng.random() < 0.3 else ["keep,ok"]
        ops += ["keep," + _script(rng), rng.choice(["marshal", "sync"])]
        if rng.random() < 0.4:
            ops += ["keep," + _script(rng), "marshal"]
    elif mode in ("allfail",):
        ops += ["keep,fail", "marshal", "marshal"]
    elif mode in ("bits", "background") and rng.random() < 0.5:
        ops += ["keep," + _script(rng), "marshal"]
    elif mode == "kth":
        ops.append("marshal")
    ops += ["keep,ok", "marshal"] if cw == 1 else ["marshal"]
    if rng.random() < 0.3:
        ops.append("marshal")        # saving twice in a row: nothing left to write
    return "fs9 %d %d %s %s %s" % (maxb, cw, text.hex() or "-", ",".join(b.hex() or "_" for b in blocks) or "-",
                                   ";".join(ops))


def _gen_load_case(rng, valid=True):
    """load -> marshal, nothing else (C09_load_marshal_preserves)"""
    odd = rng.choice([0.0, 0.2, 0.6])
    text, blocks = _gen_manifest(rng, odd)
    if not valid:
        for _ in range(rng.choice([1, 1, 2])):
            text = _mutate_text(rng, text)
    return "fs9 %d 4 %s %s marshal;marshal" % (rng.choice(BLOCKS), text.hex() or "-",
                                               ",".join(b.hex() or "_" for b in blocks) or "-")


def _gen_cg_case(rng):
    """a schedule for the real contextGroup + throttle: spawns, context checks, Keep answers (by arrival), parent
    cancel, background releases, Wait; events are placed on a time line so that most of them are enabled"""
    cap = rng.choice([1, 1, 2, 2, 3, 4])
    n = rng.randint(1, 7)
    bg = rng.choice([0, 0, 0, 1, cap]) if cap > 1 else rng.choice([0, 0, 1])
    pfail = rng.choice([0.0, 0.15, 0.3, 0.6, 1.0])
    ev = []
    last_spawn = 0.0
    for i in range(n):
        if rng.random() < 0.07:
            continue                      # never spawned
        t = rng.random() * rng.choice([0.2, 0.6, 1.0])
        last_spawn = max(last_spawn, t)
        ev.append((t, "s%d" % i))
        if rng.random() < 0.93:
            ev.append((t + rng.random() * 0.5, "c%d" % i))
    for _ in range(n + rng.randint(-1, 2)):
        ev.append((rng.random() * 1.6, "F" if rng.random() < pfail else "P"))
    if rng.random() < 0.6:
        for _ in range(n):
            ev.append((1.6 + rng.random(), "F" if rng.random() < pfail else "P"))
    for _ in range(bg if rng.random() < 0.8 else rng.randint(0, bg + 1)):
        ev.append((rng.random() * 1.2, "B"))
    if rng.random() < 0.12:
        ev.append((rng.random() * 1.4, "X"))
    if rng.random() < 0.7:
        ev.append((last_spawn + 1e-9 + rng.random() * 0.5, "W"))
    ev.sort()
    return "cg9 %d %d %d %s" % (cap, n, bg, ",".join(e for _, e in ev) or "-")


def generate(rng, tier):
    cases = []
    n = 1300 if tier == "quick" else 24000
    for _ in range(n):
        cases.append(_gen_case(rng, tier))
    for _ in range(450 if tier == "quick" else 10000):
        cases.append(_gen_load_case(rng, True))
    for _ in range(150 if tier == "quick" else 4000):
        cases.append(_gen_load_case(rng, False))
    for _ in range(3 if tier == "quick" else 20):
        cases.append(_gen_case(rng, tier, maxb=PROD, nops=rng.randint(8, 40), mode="none"))
    # names holding 0x7f (known finding F9a), kept apart so that all other cases stay fully checked
    for _ in range(3 if tier == "quick" else 30):
        cases.append(_gen_case(rng, tier, nops=rng.randint(6, 20), mode="none", del7f=True))
    # the real contextGroup + throttle under imposed schedules (Model/C09_Conc)
    for _ in range(400 if tier == "quick" else 6000):
        cases.append(_gen_cg_case(rng))
    return cases


def describe(cases, impl):
    ops, saves, blocks, lens = {}, {"ok": 0, "err": 0, "other": 0}, {}, {"<=25": 0, "26-90": 0, ">90": 0}
    with_manifest = load_err = failed_writes = save_fail_then_ok = odd_names = 0
    scripts = {}
    cg = {"cases": 0, "wait": {}, "with_failed_write": 0, "with_skip": 0, "with_dropped_func": 0, "parent_cancel": 0,
          "with_background_writers": 0, "tasks_waiting_for_a_slot_when_a_write_failed": 0, "capacity": {}}
    for c, r in zip(cases, impl):
        f = c.split(" ")
        if f[0] == "cg9":
            cg["cases"] += 1
            cg["capacity"][f[1]] = cg["capacity"].get(f[1], 0) + 1
            cg["parent_cancel"] += ",X" in "," + f[4]
            cg["with_background_writers"] += f[3] != "0"
            if r:
                d = dict(kv.split("=", 1) for kv in r.split(";") if "=" in kv)
                w = d.get("wait", "?")
                w = "E<k>" if w.startswith("E") else w
                cg["wait"][w] = cg["wait"].get(w, 0) + 1
                cg["with_failed_write"] += d.get("fails", "0") != "0"
                cg["with_skip"] += d.get("skip", "-") != "-"
                cg["with_dropped_func"] += d.get("drop", "-") != "-"
                cg["tasks_waiting_for_a_slot_when_a_write_failed"] += (d.get("fails", "0") != "0" and
                                                                        int(d.get("arr", "0")) > int(f[1]) - int(f[3]))
            continue
        blocks[f[1]] = blocks.get(f[1], 0) + 1
        with_manifest += f[3] != "-"
        os_ = [] if f[5] == "-" else f[5].split(";")
        lens["<=25" if len(os_) <= 25 else "26-90" if len(os_) <= 90 else ">90"] += 1
        for o in os_:
            a = o.split(",")
            ops[a[0]] = ops.get(a[0], 0) + 1
            if a[0] == "keep":
                k = a[1][0] if a[1][0] in "kb" else a[1]
                scripts[k] = scripts.get(k, 0) + 1
            if a[0] in ("open", "create", "mkdir"):
                nm = unpath(a[2] if a[0] != "mkdir" else a[1])
                if any(c not in b"abcdef/." for c in nm):
                    odd_names += 1
        if not r:
            continue
        if r.startswith("load=err"):
            load_err += 1
        seen_err = False
        for part in r.split(";")[1:]:
            d = parse_save(part) if part.startswith("m") and ":" in part else None
            if d:
                saves[d["cls"] if d["cls"] in saves else "other"] += 1
                failed_writes += d["fails"]
                if d["cls"] == "err":
                    seen_err = True
                elif d["cls"] == "ok" and seen_err:
                    save_fail_then_ok += 1
                    seen_err = False
    return {"ops": ops, "saves": saves, "maxBlockSize": blocks, "cases_with_manifest": with_manifest,
            "load_errors": load_err, "history_length": lens, "keep_scripts": scripts,
            "failed_keep_writes_during_saves": failed_writes, "failed_save_followed_by_successful_save": save_fail_then_ok,
            "ops_with_non_plain_names": odd_names, "contextgroup_throttle_schedules": cg}


def neighbours(case, rng):
    if case.startswith("cg9 "):
        f = case.split(" ")
        evs = [] if f[4] == "-" else f[4].split(",")
        out = [_gen_cg_case(rng) for _ in range(3)]
        if len(evs) > 1:
            k = rng.randint(1, len(evs) - 1)
            out.append(" ".join(f[:4] + [",".join(evs[:k])]))
            out.append(" ".join(f[:4] + [",".join(evs[:k] + evs[k + 1:])]))
        return out
    f = case.split(" ")
    ops = [] if f[5] == "-" else f[5].split(";")
    out = []
    tail = ["keep,ok", "marshal"] if f[2] == "1" else ["marshal"]
    if len(ops) > 1:
        for _ in range(2):
            k = rng.randint(1, len(ops))
            out.append(" ".join(f[:5] + [";".join(ops[:k] + tail)]))
    for b in rng.sample(BLOCKS, 2):
        out.append(" ".join([f[0], str(b)] + f[2:]))
    out.append(_gen_case(rng, "quick", nops=rng.randint(6, 40)))
    out.append(_gen_case(rng, "quick", nops=rng.randint(6, 30), odd=0.6))
    out.append(_gen_load_case(rng, True))
    return out
