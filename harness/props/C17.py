"""C17 plugin: a container's saved output is exactly what it left in its output directory.

Case line (fields separated by one space; names, paths and link targets hex encoded; '-' = empty):

  copy <blocksize> <ctrOutHex> <host> <mounts> <secrets> <colls>
    host    ';'-list of <relpathHex>:f:<seed>.<len> | …:d: | …:l:<targetHex> | …:p: | …:s: | …:c: | …:b:  (FIFO, socket,
            character / block device; parents first; paths
            relative to a fresh temp root R; the host output directory is R/h1/h2/o)
    mounts  ';'-list of <ctrPathHex>:<kind>:<flags>:<coll>:<pathHex>    flags ⊆ "wx" | "-"; coll = index | "-"
    secrets ','-list of <ctrPathHex>
    colls   '|'-list of collections = ';'-list of streams <nameHex>:<seed.len,…>:<pos.len.nameHex,…>

The Go driver builds the tree for real, runs copier.Copy() with stub API/Keep clients, loads the returned
manifest into a collection filesystem over the same fake Keep store and reads every file back.

The oracle below is written from the property text: it resolves every path the way the *container* sees it
(its own mount namespace, physical `..`, intermediate links followed) and never looks at the Lean model.
"""
import functools
import hashlib

ID = "C17"
RULE = ("generated host trees (depth <= 4, <= 40 entries, file sizes 0 to several blocks under a block limit of "
        "8/16/64/1000 bytes, names with spaces, colons, backslashes, non-ASCII, sibling names that string-extend "
        "each other), relative and absolute symlinks to files, directories, other links (chains up to 13), "
        "ancestors (cycles), themselves, missing names, paths outside every mount, secret mounts, collection "
        "mounts (files, directories, missing paths, the mount's `path` subtree), mount points beneath the output "
        "path, a second collection mounted on a directory inside the first one (4 % of the irregular-profile trees); 0-2 read-only collection mounts with generated manifests (1-3 streams, 0-3 blocks, files spanning "
        "blocks, zero-length files, repeated file tokens, empty-directory markers, escaped names), 0-2 secret "
        "mounts (inside and outside the output path); directories that leave five or more blocks to commit when the "
        "copier moves on to another directory (6 % of the trees); plus irregular link targets (absolute targets that are not "
        "path-cleaned, targets that pass through a symlinked directory), special files of every kind (FIFO, socket, "
        "character device, block device), unsupported mount kinds, unknown "
        "portable data hashes, excluded mounts, and a few malformed lines. A case is non-trivial when the tree "
        "has a symlink, a mount beneath the output path, a secret, or a file larger than one block; distinct = "
        "distinct case line")
ASSUMPTIONS = [
    "the container's view: the output directory is the host directory R/h1/h2/o bind-mounted at the output path; a "
    "secret mount beneath the output path is a regular file in the host directory (crunch-run copies it there); "
    "collection mounts shadow whatever the host directory has at the mount point; directories above mount points "
    "are plain directories of the container image; container paths do not exist on the host",
    "a link whose target does not exist in the container's view (dangling) is outside the property: any outcome "
    "is accepted for that output path, and failure of the copy is accepted",
    "a path that leads through up to 11 links (the copier's documented budget: limitFollowSymlinks = 10 follows "
    "handed on after the first link, i.e. the largest number the unchanged code accepts; every tree with fewer "
    "links on each path is demanded in full) must be followed, link cycles must fail; acyclic paths through 12 or "
    "more links may fail or be followed (strictly read, the property text demands them too: a documented limit of "
    "the copier, see notes/C17.md)",
    "mounted collections have valid manifests in which no path is both a file and a directory",
]
TRUSTED = [
    "executable MD5 in Lean (ArvVerif/Base/MD5.lean), compared with Go crypto/md5 through every successful case",
    "stub Keep (content-addressed map) and stub API (collection record by portable data hash) in the Go driver",
]
DRIVERS = {
    "cr": {"kind": "gotest", "pkg": "lib/crunchrun", "test": "TestVerifC17", "isolate": True,
           "timeout": 900, "case_timeout": 60, "min_chunk": 40},
}

HOSTOUT = ("h1", "h2", "o")
# number of links on one path (chain, or nesting through directory links) up to which the copy must succeed
MUST_FOLLOW = 11


def channel(case):
    return "cr"


# ----------------------------------------------------------------------------- encoding

def hx(s):
    b = s.encode() if isinstance(s, str) else s
    return b.hex() if b else "-"


def unhx(s):
    return "" if s == "-" else bytes.fromhex(s).decode()


def content(seed, n):
    return bytes((seed * seed * 31 + seed * 7 + i * i * (seed % 7 + 1) + i * (seed % 13 + 3) * 5 + (i // 256) * 11) % 256
                 for i in range(n))


def lst(s, sep):
    return [] if s in ("-", "") else s.split(sep)


def abs_comps(s):
    return tuple(s.split("/")[1:])


class Case:
    pass


@functools.lru_cache(maxsize=4096)
def parse_case(case):
    """Independent parse of the case line; None if it is not a well-formed copy line."""
    try:
        f = case.split(" ")
        if len(f) != 7 or f[0] != "copy":
            return None
        c = Case()
        c.bs = int(f[1])
        if c.bs < 1:
            return None
        c.ctr_out_s = unhx(f[2])
        c.ctr_out = abs_comps(c.ctr_out_s)
        c.host = {}
        for e in lst(f[3], ";"):
            p, k, a = e.split(":")
            path = tuple(unhx(p).split("/"))
            if k == "f":
                sd, n = a.split(".")
                c.host[path] = ("f", content(int(sd), int(n)))
            elif k == "d":
                c.host[path] = ("d",)
            elif k == "l":
                t = unhx(a)
                if not t:
                    return None
                c.host[path] = ("l", t)
            elif k in ("p", "s", "c", "b"):       # FIFO, socket, character device, block device
                c.host[path] = ("p", k)
            else:
                return None
        for i in range(1, 4):
            c.host.setdefault(HOSTOUT[:i], ("d",))
        c.colls = []
        for cs in lst(f[6], "|"):
            coll = {}
            for ss in lst(cs, ";"):
                nm, bs, ts = ss.split(":")
                sname = unhx(nm)
                data = b"".join(content(*map(int, b.split("."))) for b in lst(bs, ","))
                scomps = tuple(sname.split("/")[1:])
                for t in lst(ts, ","):
                    pos, ln, fn = t.split(".")
                    full = scomps + tuple(unhx(fn).split("/"))
                    coll.setdefault(full, b"")
                    coll[full] += data[int(pos):int(pos) + int(ln)]
            c.colls.append(coll)
        c.mounts = {}
        for m in lst(f[4], ";"):
            p, kind, flags, ci, mp = m.split(":")
            coll = None
            if ci != "-":
                i = int(ci)
                coll = c.colls[i] if i < len(c.colls) else None
            c.mounts[abs_comps(unhx(p))] = {"kind": kind, "w": "w" in flags, "x": "x" in flags, "coll": coll,
                                            "has_pdh": ci != "-", "path": unhx(mp)}
        c.secrets = {abs_comps(unhx(s)) for s in lst(f[5], ",")}
        return c
    except (ValueError, IndexError, UnicodeDecodeError):
        return None


def unsupported_config(c):
    for root, m in c.mounts.items():
        if m["kind"] == "tmp" and root != c.ctr_out:
            return True
        if m["kind"] == "collection" and m["w"]:
            return True
    return False


def impossible_mountpoint(c):
    """a mount point beneath the output path with a non-directory on the host somewhere above it: no container can
    look like that (the mount could not have been made); the property says nothing, only model = implementation
    is checked (this is how mounted content and host content come to claim the same output path)"""
    for root in c.mounts:
        if len(root) > len(c.ctr_out) and root[:len(c.ctr_out)] == c.ctr_out:
            for k in range(len(c.ctr_out) + 1, len(root)):
                n = c.host.get(HOSTOUT + root[len(c.ctr_out):k])
                if n is not None and n[0] != "d":
                    return True
            # the mount point itself is a directory of the host output directory (the container runtime creates
            # it there), unless it lies inside another mount
            if not any(o != root and len(c.ctr_out) < len(o) < len(root) and root[:len(o)] == o for o in c.mounts):
                if any(c.host.get(HOSTOUT + root[len(c.ctr_out):k]) is None for k in range(len(c.ctr_out) + 1, len(root) + 1)):
                    return True
    # a mount point inside a read-only collection mount must be a directory of that collection (nothing can be
    # created there)
    for root in c.mounts:
        for outer, m in c.mounts.items():
            if len(outer) < len(root) and root[:len(outer)] == outer and m["kind"] == "collection" and not m["w"] \
                    and m["coll"] is not None:
                rel = tuple(x for x in m["path"].split("/") if x not in ("", ".")) + root[len(outer):]
                if ".." in rel:
                    return True
                if not any(k[:len(rel)] == rel and len(k) > len(rel) for k in m["coll"]):
                    return True
    return False


def mount_above(c):
    """a mount whose mount point is a proper prefix of the output path (shape of finding F17c)"""
    return any(len(root) < len(c.ctr_out) and c.ctr_out[:len(root)] == root for root in c.mounts)


# ----------------------------------------------------------------------------- the container's view (oracle)

class View:
    """What the container sees below its output path, with links resolved physically in the container's mount
    namespace. Built from the case only."""

    def __init__(self, c):
        self.c = c
        self.files = {}        # dest tuple -> bytes
        self.dirs = set()      # dest tuples that must exist as directories
        self.free = []         # dest prefixes the property says nothing about (dangling links)
        self.bad = []          # (dest, reason) why the copy must fail
        self.cycle = False
        self.cycles = []       # dests at which a cycle closes
        self.max_used = 0
        self.host_bytes = 0
        self.irregular = []    # (dest, 'a' | 'b') for followed links whose target is not in canonical form
        self.nested = []       # output paths at which a mount lies inside the directory tree of a mounted collection
        self.links = 0

    # --- namespace
    def copy_regular(self, m):
        return m["kind"] in ("text", "json") or (m["kind"] == "collection" and m["w"])

    def innermost(self, q):
        best = None
        for root, m in self.c.mounts.items():
            if q[:len(root)] == root and (best is None or len(root) > len(best[0])):
                best = (root, m)
        return best

    def locate(self, q):
        """what is at the canonical container path q"""
        c = self.c
        for s in c.secrets:
            if q[:len(s)] == s:
                return ("secret",)
        best = self.innermost(q)
        if best is None:
            for root in list(c.mounts) + list(c.secrets):
                if len(q) < len(root) and root[:len(q)] == q:
                    return ("rootdir",)
            return ("outside",)
        root, m = best
        if m["x"]:
            return ("excluded",)
        if m["kind"] == "tmp" or self.copy_regular(m):
            hp = HOSTOUT + q[len(c.ctr_out):]
            n = c.host.get(hp)
            if n is None:
                return ("missing",)
            return ("host", hp, n)
        if m["kind"] != "collection":
            return ("unsupported",)
        if m["coll"] is None:
            return ("nomanifest",)
        rel = []
        for comp in m["path"].split("/"):
            if comp in ("", "."):
                continue
            if comp == "..":
                if rel:
                    rel.pop()
                continue
            rel.append(comp)
        r = tuple(rel) + q[len(root):]
        coll = m["coll"]
        if r in coll and r[-1:] != (".",):
            return ("collfile", coll[r])
        if r == () or any(k[:len(r)] == r and len(k) > len(r) for k in coll):
            return ("colldir", coll, r)
        return ("missing",)

    def cwalk(self, cur, comps):
        """lstat of cur/comps in the container; returns (landing, through_link)"""
        cur = tuple(cur)
        comps = list(comps)
        cnt = 0
        through = False
        steps = 0
        while comps:
            steps += 1
            if steps > 2000:
                return ("missing",), through
            comp = comps.pop(0)
            if comp in ("", "."):
                continue
            if comp == "..":
                cur = cur[:-1]
                continue
            q = cur + (comp,)
            loc = self.locate(q)
            k = loc[0]
            if k in ("excluded", "unsupported", "nomanifest") and comps and \
                    any(len(root) > len(q) and root[:len(q)] == q for root in self.c.mounts):
                # the path may go on into a mount nested inside this one: a path below an inner mount point
                # resolves in the inner mount, whatever the outer mount is
                cur = q
                continue
            if k in ("secret", "outside", "excluded", "unsupported", "nomanifest", "missing"):
                return loc + (q,), through
            if k == "rootdir" or k == "colldir":
                cur = q
                continue
            if k == "collfile":
                if comps:
                    return ("missing", q), through
                return loc + (q,), through
            # host node
            n = loc[2]
            if n[0] == "d":
                cur = q
            elif n[0] == "l":
                if not comps:
                    return ("hostlink", q, n[1]), through
                through = True
                cnt += 1
                if cnt > 40:
                    return ("missing", q), through
                t = n[1]
                if t.startswith("/"):
                    cur = ()
                    comps = t.split("/")[1:] + comps
                else:
                    comps = t.split("/") + comps
            else:
                if comps:
                    return ("missing", q), through
                return ("hostfile" if n[0] == "f" else "special", q, n), through
        # ended on a directory
        if cur == ():
            return ("outside", cur), through
        loc = self.locate(cur)
        if loc[0] in ("rootdir",):
            return ("outside", cur), through
        if loc[0] == "host":
            return ("hostdir", cur), through
        return loc + (cur,), through

    # --- the tree below the output path
    def mounts_below(self, q, dest, used=0, stack=()):
        c = self.c
        for root, m in sorted(c.mounts.items()):
            if len(root) > len(q) and root[:len(q)] == q and not self.copy_regular(m):
                self.include(self.cwalk((), root)[0], dest + root[len(q):], below=False, used=used, stack=stack)

    def include(self, land, dest, below=True, used=0, stack=()):
        """the thing found at `land` appears in the output at `dest`"""
        k = land[0]
        if k == "secret" or k == "excluded":
            return
        if k == "outside":
            self.bad.append((dest, "link at %r leads outside every mount" % ("/".join(dest),)))
        elif k == "unsupported":
            self.bad.append((dest, "unsupported mount kind at %r" % ("/".join(dest),)))
        elif k == "nomanifest":
            self.bad.append((dest, "collection record unavailable at %r" % ("/".join(dest),)))
        elif k == "special":
            self.bad.append((dest, "special file at %r" % ("/".join(dest),)))
        elif k == "missing":
            self.free.append(dest)
        elif k == "hostfile":
            self.files[dest] = land[2][1]
            self.host_bytes += len(land[2][1])
        elif k == "collfile":
            self.files[dest] = land[1]
        elif k == "colldir":
            coll, r, q = land[1], land[2], land[3]
            if dest:
                self.dirs.add(dest)
            # a mount strictly below q hides what the collection itself has there (the container sees the inner mount)
            inner = [root for root in self.c.mounts if len(root) > len(q) and root[:len(q)] == q]
            for root in inner:
                self.nested.append(dest + root[len(q):])
            for key, data in coll.items():
                if key[:len(r)] == r and len(key) > len(r):
                    cpath = q + (key[len(r):-1] if key[-1] == "." and data == b"" else key[len(r):])
                    if any(cpath[:len(root)] == root for root in inner):
                        continue
                    d = dest + key[len(r):]
                    if key[-1] == "." and data == b"":
                        self.dirs.add(d[:-1])
                    else:
                        self.files[d] = data
            if below:
                self.mounts_below(q, dest, used, stack)
        elif k == "hostdir":
            q = land[1]
            if q in stack:
                self.cycle = True
                self.cycles.append(dest)
                return
            if dest:
                self.dirs.add(dest)
            self.view_dir(q, dest, used, stack + (q,))
            if below:
                self.mounts_below(q, dest, used, stack + (q,))
        else:
            raise AssertionError(land)

    def view_dir(self, q, dest, used, stack):
        c = self.c
        hp = HOSTOUT + q[len(c.ctr_out):]
        names = sorted(p[-1] for p in c.host if p[:-1] == hp)
        for name in names:
            cq = q + (name,)
            if cq in c.secrets:
                continue
            m = c.mounts.get(cq)
            if m is not None and not self.copy_regular(m):
                continue
            n = c.host[hp + (name,)]
            d = dest + (name,)
            if n[0] == "f":
                self.files[d] = n[1]
                self.host_bytes += len(n[1])
            elif n[0] == "d":
                self.dirs.add(d)
                self.view_dir(cq, d, used, stack + (cq,))
            elif n[0] == "p":
                self.bad.append((d, "special file at %r" % ("/".join(d),)))
            else:
                self.follow(q, cq, n[1], d, used + 1, stack, {cq})

    def follow(self, D, linkq, target, dest, used, stack, seen):
        self.links += 1
        self.max_used = max(self.max_used, used)
        if used > 64:
            self.cycle = True
            self.cycles.append(dest)
            return
        if target.startswith("/"):
            comps = target.split("/")[1:]
            land, through = self.cwalk((), comps)
            if any(x in ("", ".", "..") for x in comps):
                self.irregular.append((dest, "a"))
        else:
            land, through = self.cwalk(D, target.split("/"))
        if through:
            self.irregular.append((dest, "b"))
        if land[0] == "hostlink":
            q2, t2 = land[1], land[2]
            if q2 in seen:
                self.cycle = True
                self.cycles.append(dest)
                return
            self.follow(q2[:-1], q2, t2, dest, used + 1, stack, seen | {q2})
            return
        self.include(land, dest, below=True, used=used, stack=stack)

    def build(self):
        c = self.c
        self.view_dir(c.ctr_out, (), 0, (c.ctr_out,))
        self.mounts_below(c.ctr_out, ())
        return self


@functools.lru_cache(maxsize=2048)
def view_of(case):
    c = parse_case(case)
    if c is None or unsupported_config(c):
        return None
    return View(c).build()


def parse_listing(s):
    files, dirs = {}, set()
    for e in lst(s, ";"):
        p, v = e.split("=")
        path = abs_comps(unhx(p))
        if v == "d":
            dirs.add(path)
        else:
            _, size, md5 = v.split(".")
            files[path] = (int(size), md5)
    return files, dirs


def under(path, prefixes):
    return any(path[:len(p)] == p for p in prefixes)


def ancestors(path):
    return {path[:i] for i in range(1, len(path))}


def diff_view(v, impl_files, impl_dirs):
    """paths on which the saved collection differs from the container's view (outside the free regions)"""
    exp_files = {p: (len(b), hashlib.md5(b).hexdigest()) for p, b in v.files.items()}
    got_files = dict(impl_files)
    got_dirs = set(impl_dirs)
    # an empty directory may be kept as a zero-length ".keep" file
    for p, (size, _) in list(got_files.items()):
        if p[-1] == ".keep" and size == 0 and p not in exp_files:
            d = p[:-1]
            if not any(o != p and o[:len(d)] == d for o in got_files) and not any(o[:len(d)] == d and o != d for o in got_dirs):
                del got_files[p]
                got_dirs.add(d)
    exp_dirs = set(v.dirs)
    for p in exp_files:
        exp_dirs |= ancestors(p)
    for p in list(exp_dirs):
        exp_dirs |= ancestors(p)
    for p in got_files:
        got_dirs |= ancestors(p)
    for p in list(got_dirs):
        got_dirs |= ancestors(p)
    bad = []
    for p in sorted(set(exp_files) | set(got_files)):
        if under(p, v.free):
            continue
        if exp_files.get(p) != got_files.get(p):
            if p not in got_files:
                bad.append((p, "missing from the output"))
            elif p not in exp_files:
                bad.append((p, "in the output but not in the container's view"))
            else:
                bad.append((p, "content differs"))
    for p in sorted(exp_dirs ^ got_dirs):
        if under(p, v.free) or any(f[:len(p)] == p for f in v.free):
            continue
        bad.append((p, "directory missing from the output" if p in exp_dirs else "directory only in the output"))
    return bad


def secret_hashes(c):
    out = {}
    for s in c.secrets:
        if s[:len(c.ctr_out)] == c.ctr_out:
            n = c.host.get(HOSTOUT + s[len(c.ctr_out):])
            if n and n[0] == "f" and n[1]:
                out[hashlib.md5(n[1]).hexdigest()] = s
    return out


def oracle(case, impl):
    c = parse_case(case)
    if c is None:
        return None if impl == "bad-op" else "malformed case line not rejected by the driver: " + impl[:100]
    if impl.startswith("harness-error"):
        return None        # the driver could not build the tree (ill-formed case line): not an output of Copy
    if impl == "diverge":
        return "links were followed without end (the plan grew beyond every bound until the watchdog stopped the copy)"
    if impl == "hang":
        return "copy did not return (no output collection is saved): blocked for more than 20 s on a tree that copies in milliseconds"
    if impl.startswith(("panic", "CRASH", "reload-error", "bad-op")):
        return "copy did not end with a manifest or an error: " + impl[:200]
    if unsupported_config(c):
        return None if impl == "skip-config" else "configuration outside the quantifier was run: " + impl[:100]
    if impossible_mountpoint(c):
        return None
    v = view_of(case)
    if impl.startswith("err "):
        if v.bad or v.cycle or v.free or v.max_used > MUST_FOLLOW:
            return None
        return "copy failed (%s) although every link leads to a file or directory inside the output directory or a mounted collection" % impl[4:]
    if not impl.startswith("ok "):
        return "unexpected driver output: " + impl[:100]
    _, put, listing = impl.split(" ")
    files, dirs = parse_listing(listing)
    sh = secret_hashes(c)
    problems = []          # (output path, what is wrong)
    for p, (size, md5) in sorted(files.items()):
        if md5 in sh:
            problems.append((p, "secret mount %r appears in the output as %r" % ("/" + "/".join(sh[md5]), "/" + "/".join(p))))
    for d in v.cycles:
        problems.append((d, "a link cycle at %r did not make the copy fail" % ("/" + "/".join(d),)))
    for d, msg in v.bad:
        problems.append((d, "copy succeeded although it must fail: " + msg))
    if not v.cycle and not v.bad:
        for p, w in diff_view(v, files, dirs):
            problems.append((p, "saved output differs from the output directory: /%s: %s" % ("/".join(p), w)))
    if problems:
        # lead with what no irregular link (known findings F17a/F17b) can explain
        irr = [d for d, _ in v.irregular] + list(v.nested)
        problems.sort(key=lambda pw: under(pw[0], irr))
        return "; ".join(w for _, w in problems[:4])
    if not v.free and int(put) != v.host_bytes:
        return "bytes written to Keep (%s) differ from the bytes of the copied host files (%d): mounted content must be included by reference" % (put, v.host_bytes)
    return None


# ----------------------------------------------------------------------------- compare / findings

def canon(out):
    if out.startswith("ok "):
        f = out.split(" ")
        if len(f) == 3:
            files, dirs = parse_listing(f[2])
            return ("ok", f[1], tuple(sorted(files.items())), tuple(sorted(dirs)))
    return out


def compare(case, impl, model):
    try:
        ci = canon(impl)
        return any(ci == canon(m) for m in model.split(" | "))
    except ValueError:
        return impl == model


def finding_of(case, impl, why, model=None):
    """Known findings F17a / F17b / F17d, matched by their witness shape only (F17c - a link cycle through a
    collection mounted above the output path was followed forever - is fixed by /repo f009595; `diverge` is always a
    violation):
      a  a followed link whose target is an absolute path that is not path-cleaned (a component "", "." or "..");
      b  a followed link whose target path passes through a symlinked directory (the container's resolution of the
         target meets a symbolic link before its last component);
      d  a mount whose mount point is a directory inside a mounted read-only collection (nested mounts): the copier
         extracts the outer collection whole, so what the inner mount hides is saved too (extra paths, or one file
         made of the outer and the inner file's segments).
    Successful copy: EVERY divergence from the container's view (secret bytes in the output, wrong / missing /
    extra paths, a link that should have made the copy fail) must lie at or below the output path of such a link /
    such an inner mount; a divergence anywhere else keeps the case a VIOLATION. Failed copy (a whole-copy result
    that cannot be localised): only the error classes these shapes produce (lstat: the host resolves the
    intermediate link in its own namespace; notmounted: the uncleaned spelling matches no mount; fs: the outer
    collection's file and the inner mount's directory - or the reverse - claim one path), and only where the
    implementation behaves exactly as the model of the unfixed code predicts (when the model was run on the case)."""
    if not why:
        return None
    v = view_of(case)
    if v is None:
        return None
    regions = list(v.irregular) + [(d, "d") for d in v.nested]
    if not regions:
        return None
    if impl.startswith("ok "):
        c = parse_case(case)
        files, dirs = parse_listing(impl.split(" ")[2])
        sh = secret_hashes(c)
        paths = [p for p, (_, md5) in files.items() if md5 in sh] + [p for p, _ in diff_view(v, files, dirs)] + \
                [d for d, _ in v.bad] + list(v.cycles)
        if not paths:
            return None            # e.g. only the byte count differs: not one of the known shapes
        kinds = set()
        for p in paths:
            ks = {k for d, k in regions if p[:len(d)] == d}
            if not ks:
                return None
            kinds |= ks
    elif impl.startswith("err "):
        if model is not None:
            if not compare(case, impl, model):
                return None
        elif impl not in ("err lstat", "err notmounted", "err fs"):
            return None
        if v.irregular:
            kinds = {k for _, k in v.irregular}
        elif impl == "err fs":
            kinds = {"d"}
        else:
            return None
    else:
        return None
    return "F17a" if "a" in kinds else "F17b" if "b" in kinds else "F17d"


# ----------------------------------------------------------------------------- generator

NAMES = ["a", "b", "c", "d", "e", "f", "g", "run1", "run10", "run", "x y", "c:d", "b\\k", "k\\040z", "été",
         "日本", ".hidden", "a.b", ".keep", "-", "f#1", "out", "m", "sub", "o", "h2", "z\tz", "0:3:x", "p\\101.csv", "s\\\\h"]
CTR_OUTS = ["/c17ctr/out", "/c17o", "/c17ctr/a b/out"]


class Gen:
    def __init__(self, rng, profile):
        self.rng = rng
        self.profile = profile
        self.bs = rng.choice([8, 16, 16, 64, 1000])
        self.ctr_out = rng.choice(CTR_OUTS)
        self.entries = []        # (path tuple rel. to out, kind, arg) in creation order
        self.kinds = {(): "d"}
        self.mounts = []         # (ctrpath, kind, flags, coll, path)
        self.secrets = []
        self.colls = []
        self.coll_paths = []     # per collection: (files, dirs)
        self.extra_host = []     # entries outside the output dir (relative to R)
        self.seed = 1

    def fresh_seed(self):
        self.seed += 1
        return self.seed

    def size(self):
        r, bs = self.rng, self.bs
        x = r.random()
        if x < 0.15:
            return 0
        if x < 0.55:
            return r.randint(1, max(1, bs - 1))
        if x < 0.7:
            return r.choice([bs - 1, bs, bs + 1])
        if bs >= 1000:
            return r.choice([2 * bs, 2 * bs + 7, 3 * bs + 1])
        return r.randint(bs + 1, 5 * bs + 3)

    def name_for(self, parent):
        r = self.rng
        for _ in range(20):
            n = r.choice(NAMES)
            if parent + (n,) not in self.kinds:
                return n
        return None

    def add(self, path, kind, arg=None):
        self.entries.append((path, kind, arg))
        self.kinds[path] = kind

    def gen_tree(self):
        r = self.rng
        budget = r.choice([3, 6, 10, 16, 24, 34])
        dirs = [()]
        while budget > 0:
            parent = r.choice(dirs)
            if len(parent) >= 4:
                continue
            n = self.name_for(parent)
            budget -= 1
            if n is None:
                continue
            p = parent + (n,)
            x = r.random()
            if x < 0.3 and len(p) < 4:
                self.add(p, "d")
                dirs.append(p)
            elif x < 0.72:
                self.add(p, "f", (self.fresh_seed(), self.size()))
            else:
                self.add(p, "l", None)      # target filled in later

    # --- collections
    def gen_coll(self):
        r = self.rng
        streams = []
        files, dirs = {}, {()}
        pool = [("sub",), ("sub", "deep"), ("run1",), ("run10",), ("x y",), ("d",), ("run1 old",), ("sub.bak", "x"),
                ("run1", "logs")]
        if r.random() < 0.5:
            # sibling directories whose names string-extend each other (run1 / run10 / "run1 old", sub / sub.bak)
            fam = r.choice([[("run1",), ("run10",)], [("run1",), ("run1 old",)], [("sub",), ("sub.bak", "x")],
                            [("run1",), ("run10",), ("run1", "logs")], [("sub",), ("sub", "deep"), ("sub.bak", "x")]])
            snames = [()] + fam
        else:
            snames = [()] + r.sample(pool, r.randint(0, 2))
        for sn in snames:
            blocks = [(self.fresh_seed(), r.choice([0, 1, 3, 5, 8, 13, 20])) for _ in range(r.randint(0, 3))]
            total = sum(b[1] for b in blocks)
            toks = []
            for _ in range(r.randint(1, 4)):
                nm = r.choice(["f", "g", "z", "x y", "c:d", "b\\k", "é", "run1", "run10", "a.b", "sub/q", "q\\101", "w\\\\v"])
                full = sn + tuple(nm.split("/"))
                # tree consistency: no path both file and directory
                if full in dirs or any(full[:i] in files for i in range(1, len(full))):
                    continue
                if total == 0 or r.random() < 0.2:
                    pos, ln = r.randint(0, total), 0
                else:
                    pos = r.randint(0, total - 1)
                    ln = r.randint(1, total - pos)
                toks.append((pos, ln, nm))
                files[full] = True
                for i in range(len(full)):
                    dirs.add(full[:i])
            if not toks:
                if sn in files or any(sn[:i] in files for i in range(1, len(sn))):
                    continue
                toks.append((0, 0, "."))       # empty directory marker
                for i in range(len(sn) + 1):
                    dirs.add(sn[:i])
            if not blocks:
                blocks = [(self.fresh_seed(), 0)]
            streams.append(("." + "".join("/" + c for c in sn), blocks, toks))
        self.colls.append(streams)
        self.coll_paths.append((sorted(files), sorted(dirs)))
        return len(self.colls) - 1

    def gen_mounts(self):
        r = self.rng
        self.mounts.append((self.ctr_out, "tmp", "", None, ""))
        ncoll = r.choice([0, 1, 1, 2])
        outdirs = [p for p, k in self.kinds.items() if k == "d"]
        for i in range(ncoll):
            ci = self.gen_coll()
            x = r.random()
            if x < 0.45:
                root = r.choice(["/c17mnt/a", "/c17mnt/ab", "/c17mnt/a b", "/c17in"])
            else:
                # beneath the output path: at an existing directory or at a new name in one
                # (never beneath another collection mount: a read-only collection has no mount points)
                taken = [tuple(m[0][len(self.ctr_out) + 1:].split("/")) for m in self.mounts[1:]
                         if m[0].startswith(self.ctr_out + "/")]
                cands = [d for d in outdirs if not any(d[:len(t)] == t or t[:len(d)] == d for t in taken if d)]
                if not cands:
                    continue
                d = r.choice(cands)
                if d == () or r.random() < 0.4 or any(t[:len(d)] == d for t in taken):
                    n = self.name_for(d)
                    if n is None:
                        continue
                    d = d + (n,)
                    self.add(d, "d")       # the mount point exists in the host directory
                root = self.ctr_out + "".join("/" + c for c in d)
            if any(m[0] == root for m in self.mounts):
                continue
            flags = "x" if r.random() < 0.04 else ""
            mp = ""
            dirs = [d for d in self.coll_paths[ci][1] if d]
            if dirs and r.random() < 0.3:
                mp = r.choice(["", "./", "/"]) + "/".join(r.choice(dirs)) + r.choice(["", "/"])
            coll = ci if (self.profile.get("clean") or r.random() > 0.06) else 7
            self.mounts.append((root, "collection", flags, coll, mp))
        if r.random() < 0.06 and not self.profile.get("clean"):
            self.mounts.append(("/c17other", r.choice(["waz", "git_tree"]), "", None, ""))
        if r.random() < self.profile.get("collide", 0.02) and not self.profile.get("clean"):
            # mounted content and host content claim the same output path: a collection mounted at f/m where the
            # host has a regular file f (empty or not) - the copier lays host files over the loaded manifest
            n = self.name_for(())
            if n is not None:
                self.add((n,), "f", (self.fresh_seed(), r.choice([0, 0, 3])))
                ci = self.gen_coll()
                self.mounts.append((self.ctr_out + "/" + n + "/m", "collection", "", ci, ""))
        colls = [m for m in self.mounts if m[1] == "collection" and isinstance(m[3], int) and m[3] < len(self.coll_paths)]
        if r.random() < self.profile.get("nested", 0.04) and not self.profile.get("clean") and len(colls) == 1:
            # nested mounts: a second collection mounted on a directory inside the first one (the container sees the
            # inner collection there; shape of finding F17d); now and then on a file or a missing name of the outer
            # collection (no container can look like that: only model = implementation is checked)
            m = colls[0]
            fs, ds = self.coll_paths[m[3]]
            base = tuple(c for c in m[4].split("/") if c not in ("", "."))
            dcands = [p[len(base):] for p in ds if p[:len(base)] == base and len(p) > len(base)]
            fcands = [p[len(base):] for p in fs if p[:len(base)] == base and len(p) > len(base)]
            x = r.random()
            inner = None
            if x < 0.8 and dcands:
                inner = r.choice(dcands)
            elif x < 0.9 and fcands:
                inner = r.choice(fcands)
            elif dcands or x >= 0.9:
                inner = (r.choice(dcands) if dcands else ()) + ("nomount",)
            if inner:
                ci = self.gen_coll()
                self.mounts.append((m[0] + "".join("/" + c for c in inner), "collection", "", ci, ""))
        if r.random() < self.profile.get("above", 0.03) and self.ctr_out.count("/") >= 2:
            # a collection mounted above the output path (its mount point is the output path's parent)
            ci = self.gen_coll()
            self.mounts.append((self.ctr_out.rsplit("/", 1)[0], "collection", "", ci, ""))
        nsec = r.choice([0, 0, 1, 1, 2])
        files = [p for p, k in self.kinds.items() if k == "f"]
        for i in range(nsec):
            if files and r.random() < 0.6:
                p = r.choice(files)
                sp = self.ctr_out + "".join("/" + c for c in p)
                # a materialised secret: dedicated seed, non-empty
                for j, (ep, ek, ea) in enumerate(self.entries):
                    if ep == p:
                        self.entries[j] = (ep, "f", (200 + i, self.rng.randint(6, 14)))
            else:
                sp = r.choice(["/c17secret/s.txt", "/c17secret", "/c17mnt/secret.json"])
            if sp not in self.secrets and not any(m[0] == sp for m in self.mounts):
                self.secrets.append(sp)

    # --- link targets
    def ctr(self, p):
        return self.ctr_out + "".join("/" + c for c in p)

    def rel_to(self, frm_dir, to):
        """relative path from directory frm_dir to path `to` (both relative to the output dir)"""
        i = 0
        while i < len(frm_dir) and i < len(to) and frm_dir[i] == to[i]:
            i += 1
        comps = [".."] * (len(frm_dir) - i) + list(to[i:])
        return "/".join(comps) if comps else "."

    def spell(self, link, to, allow_abs=True):
        r = self.rng
        if allow_abs and r.random() < 0.35:
            return self.ctr(to)
        t = self.rel_to(link[:-1], to)
        if r.random() < 0.1 and t != ".":
            t = "./" + t
        return t

    def target_for(self, link):
        r, prof = self.rng, self.profile
        paths = [p for p in self.kinds if p != ()]
        files = [p for p in paths if self.kinds[p] == "f"]
        dirs = [p for p in paths if self.kinds[p] == "d"]
        links = [p for p in paths if self.kinds[p] == "l" and p != link]
        x = r.random()
        colls = [m for m in self.mounts if m[1] == "collection"]
        clean = prof.get("clean", False)
        if clean:
            # only targets that exist, no cycles: directories without links below them, links made earlier
            dirs = [d for d in dirs if link[:len(d)] != d and
                    not any(k == "l" and p[:len(d)] == d for p, k in self.kinds.items())]
            links = [l for l in links if l in self.targets]
            if x >= 0.75:
                x = r.random() * 0.7
        if x < 0.30 and files:
            return self.spell(link, r.choice(files))
        if x < 0.45 and dirs:
            d = r.choice(dirs)
            if link[:len(d)] == d and r.random() < 0.7:     # would be a cycle: mostly avoid
                return self.spell(link, r.choice(files)) if files else "missing"
            return self.spell(link, d)
        if x < 0.55 and links:
            return self.spell(link, r.choice(links))
        if x < 0.70 and colls:
            m = r.choice(colls)
            ci = m[3] if isinstance(m[3], int) and m[3] < len(self.coll_paths) else None
            inner = ()
            if ci is not None and r.random() < 0.85:
                fs, ds = self.coll_paths[ci]
                base = tuple(c for c in m[4].split("/") if c not in ("", "."))
                cands = [p[len(base):] for p in fs + ds if p[:len(base)] == base]
                dcands = [p[len(base):] for p in ds if p[:len(base)] == base and len(p) > len(base)]
                if dcands and r.random() < 0.5:
                    inner = r.choice(dcands)
                elif cands:
                    inner = r.choice(cands)
                if r.random() < 0.08 and not clean:
                    inner = inner + ("nope",)
            t = m[0] + "".join("/" + c for c in inner)
            if t.startswith(self.ctr_out + "/") and r.random() < 0.5:
                return self.rel_to(link[:-1], tuple(t[len(self.ctr_out) + 1:].split("/")))
            return t
        if x < 0.75 and self.secrets and (not clean or r.random() < 0.5):
            s = r.choice(self.secrets)
            if s.startswith(self.ctr_out + "/") and r.random() < 0.5:
                return self.rel_to(link[:-1], tuple(s[len(self.ctr_out) + 1:].split("/")))
            return s
        if clean:
            if files:
                return self.spell(link, r.choice(files))
            self.add(link[:-1] + ("tgt%d" % len(self.entries),), "f", (self.fresh_seed(), 4))
            return "tgt%d" % (len(self.entries) - 1)
        if x < 0.79:
            return r.choice(["missing", "../missing", self.ctr_out + "/nope", "a/b/c/d"])
        if x < 0.83:
            up = "/".join([".."] * (len(link) + r.randint(0, 1)))
            return r.choice([up, up + "/x", "/c17none/x", "/etc/passwd", "/c17mnt", "/", self.ctr_out + "x",
                             "/c17other/x", "/c17other"])
        if x < 0.86:
            return r.choice([".", "..", self.spell(link, link), self.ctr_out, self.spell(link, link[:-1])])
        if x < 0.86 + prof.get("irregular", 0.06):
            return self.irregular_target(link, files, dirs, links)
        if files:
            return self.spell(link, r.choice(files), allow_abs=False)
        return "missing"

    def irregular_target(self, link, files, dirs, links):
        r = self.rng
        x = r.random()
        tgt = r.choice(files + dirs) if files + dirs else ()
        if x < 0.5:
            # absolute, not clean
            base = self.ctr(tgt)
            forms = [self.ctr_out + "/." + base[len(self.ctr_out):], base + "/", self.ctr_out + "/" + base[len(self.ctr_out):],
                     base + "/.", self.ctr_out + "/../" + self.ctr_out.split("/")[-1] + base[len(self.ctr_out):]]
            if dirs:
                d = r.choice(dirs)
                forms.append(self.ctr(d) + "/" + "/".join([".."] * len(d)) + base[len(self.ctr_out):])
                forms.append(self.ctr(d) + "/..")
            forms.append(self.ctr_out + "/../../x")
            forms.append(self.ctr_out + "/../../../y")
            if self.secrets:
                s = r.choice(self.secrets)
                forms.append(s + "/")
                if dirs and s.startswith(self.ctr_out + "/"):
                    d = r.choice(dirs)
                    forms.append(self.ctr(d) + "/" + "/".join([".."] * len(d)) + s[len(self.ctr_out):])
            colls = [m for m in self.mounts if m[1] == "collection"]
            if colls:
                m = r.choice(colls)
                forms.append(m[0] + "/../" + m[0].split("/")[-1])
                forms.append(m[0] + "//")
                if m[4]:
                    forms.append(m[0] + "/../" + m[0].split("/")[-1] + "/..")
                    forms.append(m[0] + "/..")
            return r.choice(forms)
        # through a symlinked directory: needs a link to a directory
        dl = [l for l in links if self.targets.get(l) is not None and self.resolves_to_dir(l)]
        if dl:
            l = r.choice(dl)
            d = self.resolves_to_dir(l)
            below = [p for p in self.kinds if p[:len(d)] == d and len(p) > len(d)]
            tail = r.choice(below)[len(d):] if below and r.random() < 0.7 else ()
            if r.random() < 0.3:
                tail = ("..",) + (r.choice(files + dirs)[-1:] if files + dirs else ("x",))
            return self.spell(link, l + tail)
        return "missing"

    def resolves_to_dir(self, l):
        """directory (relative to the output dir) a generated link points at directly, if any"""
        t = self.targets.get(l)
        if t is None:
            return None
        if t.startswith(self.ctr_out + "/"):
            p = tuple(t[len(self.ctr_out) + 1:].split("/"))
        elif t.startswith("/"):
            return None
        else:
            st = list(l[:-1])
            for comp in t.split("/"):
                if comp in ("", "."):
                    continue
                if comp == "..":
                    if not st:
                        return None
                    st.pop()
                else:
                    st.append(comp)
            p = tuple(st)
        return p if self.kinds.get(p) == "d" else None

    def fill_links(self):
        self.targets = {}
        for i, (p, k, a) in enumerate(self.entries):
            if k == "l" and a is not None:
                self.targets[p] = a
            if k == "l" and a is None:
                t = self.target_for(p)
                self.targets[p] = t
                self.entries[i] = (p, "l", t)

    def extras(self):
        r = self.rng
        # things next to the host output directory, so that escapes have something to find
        self.extra_host = [("h1/x", "f", (251, 7)), ("h1/h2/y", "f", (252, 9)), ("y", "f", (253, 3))]
        if r.random() < self.profile.get("special", 0.03):
            d = r.choice([p for p, k in self.kinds.items() if k == "d"])
            n = self.name_for(d)
            if n:
                self.add(d + (n,), r.choice("pscb"))

    def chain(self, n=None):
        """a chain of links of a chosen length ending at a file, or a ring"""
        r = self.rng
        clean = self.profile.get("clean")
        ring = n is None and r.random() < 0.2 and not clean
        if n is None:
            n = r.choice([2, 3, 9, 10, 11]) if clean else r.choice([2, 3, 9, 10, 11, 12, 13])
        d = ()
        names = ["ch%d" % i for i in range(n)]
        end = "chend"
        self.add(d + (end,), "f", (self.fresh_seed(), 3))
        for i, nm in enumerate(names):
            nxt = names[i + 1] if i + 1 < n else (names[0] if ring else end)
            t = nxt if r.random() < 0.7 else self.ctr(d + (nxt,))
            self.add(d + (nm,), "l", t)

    def nest(self, n=None):
        """directory links nested inside each other: every level costs one follow on the same descent path"""
        r = self.rng
        if n is None:
            n = r.choice([2, 5, 10, 11]) if self.profile.get("clean") else r.choice([2, 5, 10, 11, 12])
        for i in range(n):
            self.add(("n%d" % i,), "d")
            self.add(("n%d" % i, "v"), "f", (self.fresh_seed(), 2))
            if i + 1 < n:
                self.add(("n%d" % i, "l"), "l", "../n%d" % (i + 1))
        self.add(("nstart",), "l", "n0")

    def manyblocks(self):
        """a directory that still has five or more blocks to commit when the copier leaves it for another one:
        files between half a block and a block (each committed on its own) or many small files (packed)"""
        r, bs = self.rng, self.bs
        d = ("aa0",)
        if d in self.kinds:
            return
        self.add(d, "d")
        if r.random() < 0.6:
            for i in range(r.randint(5, 8)):
                self.add(d + ("big%d" % i,), "f", (self.fresh_seed(), r.randint(bs // 2 + 1, max(bs // 2 + 1, bs - 1))))
        else:
            small = max(1, bs // 4)
            for i in range(min(30, 5 * bs // small + r.randint(2, 6))):
                self.add(d + ("s%02d" % i,), "f", (self.fresh_seed(), small))
        self.add(("zz9",), "d")
        self.add(("zz9", "after"), "f", (self.fresh_seed(), 3))

    def line(self):
        out = "h1/h2/o"
        hs = []
        for p, k, a in self.extra_host:
            hs.append("%s:%s:%s" % (hx(p), k, "%d.%d" % a if k == "f" else ""))
        for p, k, a in self.entries:
            hp = hx(out + "".join("/" + c for c in p))
            if k == "f":
                hs.append("%s:f:%d.%d" % (hp, a[0], a[1]))
            elif k == "d":
                hs.append("%s:d:" % hp)
            elif k == "l":
                hs.append("%s:l:%s" % (hp, hx(a)))
            else:
                hs.append("%s:%s:" % (hp, k))
        ms = ["%s:%s:%s:%s:%s" % (hx(m[0]), m[1], m[2] or "-", "-" if m[3] is None else m[3], hx(m[4])) for m in self.mounts]
        cs = []
        for streams in self.colls:
            cs.append(";".join("%s:%s:%s" % (hx(sn), ",".join("%d.%d" % b for b in blocks) or "-",
                                             ",".join("%d.%d.%s" % (p, l, hx(n)) for p, l, n in toks) or "-")
                               for sn, blocks, toks in streams))
        return "copy %d %s %s %s %s %s" % (self.bs, hx(self.ctr_out), ";".join(hs) or "-", ";".join(ms) or "-",
                                           ",".join(hx(s) for s in self.secrets) or "-", "|".join(cs) or "-")


def gen_case(rng, profile):
    g = Gen(rng, profile)
    g.gen_tree()
    g.gen_mounts()
    x = rng.random()
    if x < 0.06:
        g.chain()
    elif x < 0.09:
        g.nest()
    elif x < 0.15:
        g.manyblocks()
    g.extras()
    g.fill_links()
    return g.line()


def boundary_cases(rng):
    """link chains and nested directory links right at the follow limit (10, 11, 12 follows), in every run"""
    out = []
    for n in (10, 11, 12):
        for kind in ("chain", "nest"):
            g = Gen(rng, {"clean": True, "irregular": 0.0, "special": 0.0})
            g.mounts.append((g.ctr_out, "tmp", "", None, ""))
            getattr(g, kind)(n)
            g.extras()
            g.fill_links()
            out.append(g.line())
    return out


def generate(rng, tier):
    n = 420 if tier == "quick" else 12000
    cases = boundary_cases(rng)
    for i in range(n):
        clean = rng.random() < 0.6
        prof = {"irregular": 0.0 if clean else 0.12, "special": 0.0 if clean else 0.10, "clean": clean}
        cases.append(gen_case(rng, prof))
    # malformed stream: broken hex, unknown kinds, wrong field counts
    base = cases[:12]
    for c in base:
        f = c.split(" ")
        k = rng.randrange(4)
        if k == 0:
            f[2] = f[2][:-1]
        elif k == 1:
            f[3] = f[3].replace(":f:", ":q:", 1) if ":f:" in f[3] else "zz:f:1.1"
        elif k == 2:
            f = f[:-1]
        else:
            f[1] = "0"
        cases.append(" ".join(f))
    return cases


# ----------------------------------------------------------------------------- evidence helpers

def nontrivial_key(case, impl):
    c = parse_case(case)
    if c is None:
        return None
    if any(n[0] == "l" for n in c.host.values()) or c.secrets or len(c.mounts) > 1 or \
            any(n[0] == "f" and len(n[1]) > c.bs for n in c.host.values()):
        return case
    return None


def describe(cases, impl):
    d = {"outcomes": {}, "links_followed": 0, "cases_with_irregular_link": 0, "cases_with_nested_mounts": 0, "cases_with_cycle": 0,
         "cases_must_fail": 0, "cases_with_dangling": 0, "mounts_below_output": 0, "collection_mounts": 0,
         "secrets": 0, "max_chain": 0, "cases_with_11_links_on_a_path": 0, "cases_with_12plus_links_on_a_path": 0, "entries": {}, "multi_block_files": 0, "special_files": 0, "special_kinds": {}}
    for c, r in zip(cases, impl):
        key = (r or "none").split(" ")[0:2]
        key = " ".join(key) if key and key[0] in ("err", "panic") else key[0]
        d["outcomes"][key] = d["outcomes"].get(key, 0) + 1
        pc = parse_case(c)
        if pc is None:
            continue
        v = view_of(c)
        n = len(pc.host)
        b = "<=5" if n <= 5 else "6-15" if n <= 15 else "16-30" if n <= 30 else ">30"
        d["entries"][b] = d["entries"].get(b, 0) + 1
        d["collection_mounts"] += sum(1 for m in pc.mounts.values() if m["kind"] == "collection")
        d["mounts_below_output"] += sum(1 for root, m in pc.mounts.items()
                                        if len(root) > len(pc.ctr_out) and root[:len(pc.ctr_out)] == pc.ctr_out)
        d["secrets"] += len(pc.secrets)
        d["multi_block_files"] += sum(1 for x in pc.host.values() if x[0] == "f" and len(x[1]) > pc.bs)
        d["special_files"] += sum(1 for x in pc.host.values() if x[0] == "p")
        for x in pc.host.values():
            if x[0] == "p":
                kind = {"p": "fifo", "s": "socket", "c": "chardev", "b": "blockdev"}[x[1]]
                d["special_kinds"][kind] = d["special_kinds"].get(kind, 0) + 1
        if v is not None:
            d["links_followed"] += v.links
            d["cases_with_irregular_link"] += 1 if v.irregular else 0
            d["cases_with_nested_mounts"] += 1 if any(len(a) < len(b) and b[:len(a)] == a and m["kind"] == "collection"
                                                      for a, m in pc.mounts.items() for b in pc.mounts) else 0
            d["cases_with_cycle"] += 1 if v.cycle else 0
            d["cases_must_fail"] += 1 if v.bad else 0
            d["cases_with_dangling"] += 1 if v.free else 0
            d["max_chain"] = max(d["max_chain"], v.max_used)
            d["cases_with_11_links_on_a_path"] += 1 if v.max_used == MUST_FOLLOW else 0
            d["cases_with_12plus_links_on_a_path"] += 1 if v.max_used > MUST_FOLLOW else 0
    return d


def neighbours(case, rng):
    f = case.split(" ")
    if len(f) != 7:
        return []
    out = []
    ents = lst(f[3], ";")
    for _ in range(6):
        g = list(f)
        e = list(ents)
        k = rng.randrange(5)
        if k == 0 and e:
            victim = e[rng.randrange(len(e))].split(":")[0]
            e = [x for x in e if not (x.split(":")[0] == victim or x.split(":")[0].startswith(victim + "2f"))]
        elif k == 1:
            links = [i for i, x in enumerate(e) if ":l:" in x]
            if links:
                i = rng.choice(links)
                p = e[i].split(":")
                t = unhx(p[2])
                t2 = rng.choice([t + "/", "./" + t, unhx(f[2]) + "/" + t, t.replace("/", "//", 1), "../" + t])
                e[i] = "%s:l:%s" % (p[0], hx(t2))
        elif k == 2:
            g[5] = "-"
        elif k == 3:
            ms = lst(f[4], ";")
            if len(ms) > 1:
                del ms[rng.randrange(1, len(ms))]
                g[4] = ";".join(ms)
        else:
            e.append("%s:f:%d.%d" % (hx("h1/h2/o/nb%d" % rng.randrange(100)), rng.randrange(100), rng.randrange(40)))
        g[3] = ";".join(e) or "-"
        out.append(" ".join(g))
    out.append(gen_case(rng, {"irregular": 0.0, "special": 0.02}))
    return out
