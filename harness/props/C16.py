"""C16 plugin: cheapest adequate instance type (ChooseInstanceType) and runQueue start/unlock order.

Line protocol: see lean/ArvVerif/Driver/C16.lean.
"""
import re

ID = "C16"
RULE = ("choose: instance-type tables of 0-12 types (prices in 1/64 units drawn from a small set so that "
        "ties are frequent, duplicated and dominated specs, both preemptible flags) x a container whose "
        "VCPUs / RAM+keep-cache+reserve / tmp-mount sum (+ Docker image estimate) / preemptible flag sit at "
        "a target type's boundary (exact fit, one unit above, one below) or well inside, x ReserveExtraRAM in "
        "{0,1,1000,256MiB,random}; each case is run 8 times on freshly built maps. arith: valid and malformed "
        "PDH strings and mount lists incl. int64 wrap-around. rq: queue snapshots of 0-8 containers "
        "(Queued/Locked/Running, priorities 0-6 with ties, running / lingering-process flags) x pool states "
        "(quota reached after 0,1,2,never creates; Create succeeding 0,1,2,always times; per type idle 0-2, "
        "booting 0-2, StartContainer by idle count / always failing / always succeeding / failing once then succeeding). "
        "choose (near the bounds): byte quantities next to the explicit bounds of C16_inrange_of_bounds (ram+keep+reserve "
        "= floor((2^63-1)/100) -2..+2, tmp sum 2^62 -2..+2, PDH manifest length 42*2^36+79 -43..+84 and around the wrap "
        "of the image estimate) against types whose RAM / scratch are the resulting needs -1/0/+1 or 2^63-1. "
        "rq (exhaustive small scope): every multiset of 0-3 containers (priority 1|2, Locked|Queued, type) x 1-2 types x "
        "quota 0|1|never x Create succeeding 0|1|always times x per type idle 0|1, booting 0|1, start by idle | fail-once "
        "(97560 cases: all in thorough, a sample of 400 in quick). "
        "cq: a real container.Queue with the dispatcher's typeChooser over a 6-type table (1/2/4 VCPUs on demand and "
        "preemptible, differing RAM and scratch); 1-6 containers whose constraint vectors (VCPUs, preemptible, tmp mount, "
        "RAM) are mostly relatives of one base vector; histories of polls with controllable windows, own and foreign "
        "operations, faults, a restart (containers Locked by this dispatcher, empty queue); then one pass. "
        "non-trivial: choose with >= 2 types, rq with >= 2 containers that are not skipped; distinct = distinct case line")
ASSUMPTIONS = [
    "prices are finite float64 values that are multiples of 1/64 (compared exactly); NaN prices are excluded",
    "instance types have non-negative RAM and VCPUs (the loop compares the first candidate with a zero-valued 'best')",
    "(ram + keep_cache_ram + ReserveExtraRAM) * 100, the tmp capacity sum and the image estimate fit in int64 "
    "(implied by |ram+keep+reserve| <= 92233720368547758, manifest length <= 42*2^36+79, |tmp sum| <= 2^62: C16_inrange_of_bounds); "
    "beyond that the wrapped values are compared model = implementation and the oracle is silent",
    "a type's RAM is adequate when RAM >= floor((ram + keep_cache + reserve) * 100 / 95), as the code and DESIGN.md read 'after the 5 percent discount'",
    "a higher-priority Locked container whose previous crunch-run process has not exited (KillContainer = true) waits for that process, not for a worker (DESIGN section 8, F8)",
    "within one pass Create does not fail and later succeed for the same instance type (the stub pool's Create is monotone, as upstream's stubPool.canCreate; "
    "proved of the Lean model of worker.Pool.Create / throttle at a frozen clock, C16_realpool_monotone, which the real pool is run against in op rqp)",
]
TRUSTED = ["recording stub pool / queue wrapper in zz_verif_c16_test.go (shaped like upstream's stubPool and test.Queue)",
           "lockContainer goroutines are awaited by goroutine count; Lock calls are compared as a set"]

DRIVERS = {
    "dc": {"kind": "gotest", "pkg": "lib/dispatchcloud", "test": "TestVerifC16"},
    "sch": {"kind": "gotest", "pkg": "lib/dispatchcloud/scheduler", "test": "TestVerifC16"},
}

MIB64 = 64 * 1024 * 1024
I63 = 1 << 63
PDH_RE = re.compile(rb"\A[0-9a-f]{32}\+([0-9]+)\Z")


def channel(case):
    return "sch" if case.startswith(("rq ", "rqp ")) else "dc"       # choose / arith / cq run in lib/dispatchcloud


# ----------------------------------------------------------------------------- spec helpers (oracle)

def _tdiv(a, b):
    q = abs(a) // abs(b)
    return q if (a >= 0) == (b >= 0) else -q


def _hex(b):
    return b.hex() if b else "-"


def _unhex(s):
    return b"" if s == "-" else bytes.fromhex(s)


def spec_image_size(pdh):
    """Estimated Docker image size from the PDH, from the documented heuristic."""
    m = PDH_RE.match(pdh)
    if not m:
        return 0
    n = int(m.group(1))
    if n >= I63 or n < 122:
        return 0
    return ((n - 80) // 42) * MIB64


def _mounts(s):
    return [] if s == "-" else [(k, int(c)) for k, c in (p.split("=") for p in s.split(";"))]


def spec_scratch(mounts, img):
    s = sum(c for k, c in mounts if k == "tmp")
    return max(s, img) + img


def _types(s):
    out = []
    if s == "-":
        return out
    for f in s.split(","):
        n, v, r, sc, p, pre = f.split(":")
        out.append({"name": n, "vcpus": int(v), "ram": int(r), "scratch": int(sc), "price": int(p), "pre": pre == "1"})
    return out


def _in64(x):
    return -I63 <= x < I63


# ----------------------------------------------------------------------------- generators

HEX = "0123456789abcdef"


def _pdh(rng, blocks=None, n=None):
    h = "".join(rng.choice(HEX) for _ in range(32))
    if n is None:
        n = 80 + 42 * blocks + rng.randrange(42)
    return (h + "+" + str(n)).encode()


def _bad_pdh(rng):
    h = "".join(rng.choice(HEX) for _ in range(32))
    n = str(80 + 42 * rng.randint(1, 50) + rng.randrange(42))
    return rng.choice([
        b"",
        b"arvados/jobs:latest",
        (h[:31] + "+" + n).encode(),
        (h + "0+" + n).encode(),
        (h.upper() if any(c in "abcdef" for c in h) else "A" + h[1:]).encode() + b"+" + n.encode(),
        ("g" + h[1:] + "+" + n).encode(),
        (h + n).encode(),
        (h + "+").encode(),
        (h + "+" + n + "\n").encode(),
        (h + "+" + n + " ").encode(),
        (" " + h + "+" + n).encode(),
        (h + "+" + n + "a").encode(),
        (h + "+-" + n).encode(),
        (h + "++" + n).encode(),
        (h + "+" + n + "+K@abcde").encode(),
        (h + "+000" + n).encode(),
        (h + "+").encode() + "١٢٣".encode(),
        (h + "+" + n).encode() + b"\xff",
        (h + "+" + str(I63)).encode(),
        (h + "+" + str(I63 - 1)).encode(),
        (h + "+" + "9" * 30).encode(),
        (h + "+" + rng.choice(["0", "1", "80", "100", "121", "122", "123", "163", "164", "165"])).encode(),
    ])


def _gen_table(rng):
    k = rng.choice([0, 1, 1, 2, 2, 3, 4, 5, 6, 8, 10, 12]) if rng.random() < 0.6 else rng.randint(1, 12)
    unit = rng.choice([1, 1000, 1 << 20, 1 << 30])
    prices = [rng.choice([0, 16, 32, 64, 64, 96, 128, 3, 1000]) for _ in range(3)]
    ts = []
    for i in range(k):
        if ts and rng.random() < 0.25:
            # a near-copy of an earlier type: same price, same / dominated / dominating specs
            t = dict(rng.choice(ts))
            r = rng.random()
            if r < 0.3:
                t["ram"] += rng.choice([0, 1, unit])
            elif r < 0.6:
                t["vcpus"] += rng.choice([0, 1])
            elif r < 0.8:
                t["ram"] += unit
                t["vcpus"] = max(0, t["vcpus"] - 1)
            elif r < 0.9:
                t["price"] += rng.choice([-1, 1, 16])
                t["price"] = max(0, t["price"])
        else:
            sc = rng.choice([0, rng.randint(0, 40) * unit, rng.randint(1, 40) * 2 * MIB64 + rng.choice([-1, 0, 0, 1]),
                             rng.randint(1, 80) * MIB64 + rng.randint(0, 1000)])
            t = {"vcpus": rng.randint(0, 8), "ram": rng.randint(0, 64) * unit + rng.choice([0, 0, 1, 95, 100]),
                 "scratch": max(0, sc), "price": rng.choice(prices) if rng.random() < 0.8 else rng.randint(0, 640),
                 "pre": rng.random() < 0.25}
        t["name"] = str(i + 1)
        ts.append(t)
    rng.shuffle(ts)
    return ts


def _fmt_types(ts):
    return ",".join(f"{t['name']}:{t['vcpus']}:{t['ram']}:{t['scratch']}:{t['price']}:{int(t['pre'])}" for t in ts) or "-"


def _split_sum(rng, total, parts):
    if parts <= 1 or total <= 0:
        return [total]
    cuts = sorted(rng.randint(0, total) for _ in range(parts - 1))
    return [b - a for a, b in zip([0] + cuts, cuts + [total])]


def _gen_choose(rng):
    ts = _gen_table(rng)
    tgt = rng.choice(ts) if ts else {"vcpus": 2, "ram": 1000, "scratch": 1000, "pre": False}
    reserve = rng.choice([0, 0, 1, 1000, 1 << 28, rng.randint(0, 1 << 31)])
    keep = rng.choice([0, 0, 1 << 28, rng.randint(0, 1 << 20)])
    # RAM: choose the sum so that floor(sum*100/95) is the target's RAM, +-1, or far away
    mode = rng.random()
    x0 = -((-tgt["ram"] * 95) // 100)           # smallest sum with floor(sum*100/95) >= target RAM
    if mode < 0.7:
        total = x0 + rng.choice([-2, -1, -1, 0, 0, 0, 1, 1, 2])
    elif mode < 0.85:
        total = rng.randint(0, max(1, x0))
    else:
        total = x0 + rng.choice([5, 100, 1 << 20])
    ram = total - keep - reserve
    if ram < 0 and rng.random() < 0.8:
        # keep RAM non-negative in most cases by shrinking the other terms
        keep = 0
        reserve = min(reserve, max(0, total))
        ram = total - reserve
    vcpus = tgt["vcpus"] + (rng.choice([-1, 0, 0, 0, 1]) if rng.random() < 0.75 else -rng.randint(0, 8))
    pre = tgt["pre"] if rng.random() < 0.85 else not tgt["pre"]
    # scratch: image estimate + tmp mounts
    image = b""
    img = 0
    r = rng.random()
    if r < 0.45:
        maxb = tgt["scratch"] // (2 * MIB64)
        b = rng.randint(1, maxb) if maxb >= 1 and rng.random() < 0.8 else rng.randint(1, 4)
        image = _pdh(rng, blocks=b)
        img = b * MIB64
    elif r < 0.6:
        image = _bad_pdh(rng)
        img = spec_image_size(image)
    d = rng.choice([-1, 0, 0, 0, 1]) if rng.random() < 0.75 else -rng.randint(0, max(0, tgt["scratch"]))
    tmp_total = max(0, tgt["scratch"] - img + d)
    mounts = []
    if rng.random() < 0.85:
        for c in _split_sum(rng, tmp_total, rng.randint(1, 3)):
            mounts.append(("tmp", c))
    for _ in range(rng.choice([0, 0, 1, 2])):
        mounts.append((rng.choice(["collection", "json", "Tmp", "tmpx", "", "TMP", "text"]), rng.choice([0, 1, 1 << 30, tgt["scratch"] + 5])))
    rng.shuffle(mounts)
    ms = ";".join(f"{k}={c}" for k, c in mounts) or "-"
    return f"choose {reserve} {_fmt_types(ts)} {vcpus}:{ram}:{keep}:{int(pre)} {_hex(image)} {ms}"


def _gen_arith(rng):
    r = rng.random()
    if r < 0.35:
        image = _pdh(rng, blocks=rng.choice([1, 2, 10, 100, 1 << 20, (1 << 37) - 1, 1 << 37, (1 << 37) + 1, 1 << 40]))
    elif r < 0.5:
        image = _pdh(rng, n=rng.choice([0, 1, 79, 80, 81, 121, 122, 123, 163, 164, I63 - 1, I63 - 43, rng.randint(0, I63 - 1)]))
    else:
        image = _bad_pdh(rng)
    mounts = []
    for _ in range(rng.randint(0, 4)):
        k = rng.choice(["tmp", "tmp", "tmp", "collection", "Tmp", ""])
        c = rng.choice([0, 1, rng.randint(0, 1 << 40), (1 << 62), (1 << 63) - 1, -1, -(1 << 40), MIB64 * rng.randint(1, 50)])
        mounts.append((k, c))
    ms = ";".join(f"{k}={c}" for k, c in mounts) or "-"
    return f"arith {_hex(image)} {ms}"


def _fact(n):
    r = 1
    for i in range(2, n + 1):
        r *= i
    return r


def _gen_rq(rng, maxn, real=False):
    """real=True: a pass against the real worker.Pool (op rqp): AtQuota is all-or-nothing, StartContainer
    succeeds iff an idle worker of the type exists, KillContainer is true only for containers in Running()."""
    nt = rng.choice([1, 1, 2, 2, 3])
    while True:
        n = rng.randint(2, maxn) if rng.random() < 0.8 else rng.choice([maxn, 0, 1, 2, 3])
        style = rng.random()
        ents = []
        for u in range(1, n + 1):
            if style < 0.3:
                prio = n + 1 - u if rng.random() < 0.9 else rng.randint(0, n)       # mostly distinct
            elif style < 0.5:
                prio = rng.choice([1, 2])                                             # heavy ties
            else:
                prio = rng.choice([0, 1, 2, 3, 4, 5, 6, 6])
            st = rng.choice("LLLLLLQQQO")
            ty = rng.randrange(nt)
            fl = ""
            if rng.random() < 0.1:
                fl += "r"
            if rng.random() < 0.12 and not real:
                fl += "k"
            if rng.random() < 0.08:
                fl += "o"
            if rng.random() < 0.08:
                fl += "c"
            ents.append((u, prio, st, ty, fl or "-"))
        # bound the number of outcomes of the unstable sort (the model prints every one)
        counts = {}
        for e in ents:
            counts[e[1]] = counts.get(e[1], 0) + 1
        orders = 1
        for c in counts.values():
            orders *= _fact(c)
        if orders <= 150:
            break
    rng.shuffle(ents)
    quota = rng.choice([0, 0, 99, 99, 99]) if real else rng.choice([0, 0, 1, 2, 99, 99, 99])
    cancreate = rng.choice([0, 1, 2, 99, 99, 99])
    modes = "i" if real else "iiiiiifsx"
    types = ",".join(f"{rng.choice([0, 0, 1, 1, 2])}:{rng.choice([0, 0, 1, 2])}:{rng.choice(modes)}" for _ in range(nt))
    es = ",".join(f"{u}:{p}:{st}:{ty}:{fl}" for u, p, st, ty, fl in ents) or "-"
    return f"{'rqp' if real else 'rq'} {quota}:{cancreate} {types} {es}"


# ---- next to the explicit bounds of C16_inrange_of_bounds and to the top of the int64 range

RAM_SUM_BOUND = (I63 - 1) // 100            # largest ram+keep+reserve whose product with 100 fits in int64
IMG_LEN_BOUND = 42 * (1 << 36) + 79         # largest manifest length admitted by the theorem
TMP_SUM_BOUND = 1 << 62


def _gen_choose_big(rng):
    """Tables and containers whose byte quantities sit next to the bounds under which the int64 arithmetic is
    proved not to wrap (exactly at the bound / one below: the oracle is active; one above: the model and the
    implementation must still agree on the wrapped values, the oracle is silent outside the stated range)."""
    mode = rng.choice(["ram", "ram", "ram", "tmp", "img", "mix"])
    reserve = rng.choice([0, 0, 1, 1 << 30, RAM_SUM_BOUND // 2])
    keep = rng.choice([0, 0, 1 << 28, RAM_SUM_BOUND // 3])
    if mode in ("ram", "mix"):
        total = RAM_SUM_BOUND + rng.choice([-2, -1, 0, 0, 0, 1, 1, 2, 1000])
    else:
        total = rng.choice([0, 1000, 1 << 40])
    ram = total - keep - reserve
    if ram < 0:
        keep, reserve = 0, min(reserve, total)
        ram = total - reserve
    need_ram = _tdiv(total * 100, 95) if _in64(total * 100) else 0
    image, img = b"", 0
    if mode in ("img", "mix") or rng.random() < 0.15:
        n = IMG_LEN_BOUND + rng.choice([-43, -42, -1, 0, 0, 1, 42, 84]) if rng.random() < 0.8 else 2 * IMG_LEN_BOUND + rng.choice([-80, 0, 79, 80, 81])
        image = _pdh(rng, n=n)
        img = spec_image_size(image)
    if mode in ("tmp", "mix"):
        tmp_total = TMP_SUM_BOUND + rng.choice([-2, -1, 0, 0, 1, 2])
    elif mode == "img":
        tmp_total = img + rng.choice([-1, 0, 1])
    else:
        tmp_total = rng.choice([0, 1000])
    tmp_total = min(tmp_total, I63 - 1)
    need_scratch = max(tmp_total, img) + img
    mounts = [("tmp", c) for c in _split_sum(rng, tmp_total, rng.randint(1, 3))] if tmp_total > 0 else []
    if rng.random() < 0.3:
        mounts.append((rng.choice(["collection", "Tmp", ""]), rng.choice([0, I63 - 1])))
    rng.shuffle(mounts)
    vcpus = rng.randint(0, 4)
    ts = []
    for i in range(rng.randint(1, 5)):
        r = rng.random()
        t_ram = (need_ram + rng.choice([-1, 0, 0, 1])) if r < 0.6 else rng.choice([I63 - 1, 0, 1 << 33])
        t_sc = (need_scratch + rng.choice([-1, 0, 0, 1])) if rng.random() < 0.6 else rng.choice([I63 - 1, 0, 1 << 40])
        ts.append({"name": str(i + 1), "vcpus": vcpus + rng.choice([-1, 0, 0, 1, 2]), "ram": min(max(0, t_ram), I63 - 1),
                   "scratch": min(max(0, t_sc), I63 - 1), "price": rng.choice([0, 16, 64, 64, 128]), "pre": rng.random() < 0.15})
        ts[-1]["vcpus"] = max(0, ts[-1]["vcpus"])
    ms = ";".join(f"{k}={c}" for k, c in mounts) or "-"
    return f"choose {reserve} {_fmt_types(ts)} {vcpus}:{ram}:{keep}:0 {_hex(image)} {ms}"


# ---- exhaustive small scope: every queue snapshot x pool state within the scope below

def _enum_rq():
    """All `rq` cases with 1-2 instance types, 0-3 containers (priority 1|2, Locked|Queued, any type; as
    multisets - the order of the snapshot is a Go map's and every outcome of the unstable sort is in the
    model's allowed set), quota reached after 0|1|never creates, Create succeeding 0|1|always times, per type
    idle 0|1, booting 0|1, StartContainer by idle count | failing once then succeeding."""
    import itertools
    out = []
    for nt in (1, 2):
        opts = [(p, st, ty) for p in (2, 1) for st in "LQ" for ty in range(nt)]
        ptypes = [f"{i}:{b}:{m}" for i in (0, 1) for b in (0, 1) for m in "ix"]
        pools = [",".join(c) for c in itertools.product(ptypes, repeat=nt)]
        for n in range(0, 4):
            for combo in itertools.combinations_with_replacement(opts, n):
                es = ",".join(f"{u + 1}:{p}:{st}:{ty}:-" for u, (p, st, ty) in enumerate(combo)) or "-"
                for quota in (0, 1, 99):
                    for cc in (0, 1, 99):
                        for pl in pools:
                            out.append(f"rq {quota}:{cc} {pl} {es}")
    return out


# ---- container.Queue histories (op cq)

# the cluster of the cq driver: id, VCPUs, RAM, scratch, price in 1/64, preemptible
CQ_TABLE = [(0, 1, 1000, 1000, 64, False), (1, 2, 1000, 1000, 128, False), (2, 4, 2000, 2000, 192, False),
            (3, 1, 1000, 1000, 16, True), (4, 2, 2000, 1000, 32, True), (5, 4, 2000, 3000, 48, True)]


def _cq_decode(need):
    """constraint vector encoded in `need`: VCPUs, RAM, tmp-mount bytes, preemptible"""
    return need & 15, ((need >> 7) & 1) * 1900, ((need >> 5) & 3) * 1000, bool((need >> 4) & 1)


def _cq_type(need):
    """the cheapest configured type satisfying every constraint (prices are distinct), from the property text"""
    v, ram, tmp, pre = _cq_decode(need)
    need_ram = _tdiv(ram * 100, 95)
    ok = [t for t in CQ_TABLE if t[1] >= v and t[2] >= need_ram and t[3] >= tmp and t[5] == pre]
    return min(ok, key=lambda t: t[4])[0] if ok else None


def _cq_show(need):
    v, ram, tmp, pre = _cq_decode(need)
    return f"{v} VCPUs, RAM {ram}, tmp {tmp}, preemptible={int(pre)}"


def _cq_rand_need(rng):
    v = rng.choice([1, 1, 1, 2, 2, 3, 4, 5, 9]) if rng.random() < 0.9 else 0
    return (v | (16 if rng.random() < 0.3 else 0) | (rng.choice([0, 0, 0, 0, 1, 2, 3]) << 5)
            | (128 if rng.random() < 0.15 else 0))


def _cq_need(rng, base):
    """mostly relatives of one base vector: the same resources with the other preemptible flag, an identical
    copy, one other dimension changed - containers that a careless cache / comparison would confuse"""
    r = rng.random()
    if r < 0.3:
        return base ^ 16
    if r < 0.45:
        return base
    if r < 0.52:
        return base ^ 128
    if r < 0.6:
        return (base & ~96) | (rng.randrange(4) << 5)
    if r < 0.68:
        return (base & ~15) | rng.choice([1, 2, 3, 4, 5])
    return _cq_rand_need(rng)


def _gen_cq(rng):
    """A controller state, a history of queue operations with controllable poll windows, then one pass.
    The generator keeps a rough picture of the cache so that Lock/Unlock/Cancel are asked only for
    containers the scheduler could know about, and so that every change made behind the dispatcher's
    back is followed by a complete poll before the pass (otherwise the scheduler cannot know better)."""
    n = rng.randint(1, 6)
    prios = rng.sample(range(1, 20), n)                  # distinct priorities: one outcome of the sort
    base = _cq_rand_need(rng)
    ctl = {}
    for u in range(1, n + 1):
        r = rng.random()
        st = "Q" if r < 0.5 else "L" if r < 0.8 else "R" if r < 0.9 else rng.choice("CX")
        mine = st in "LR" and rng.random() < 0.85
        need = _cq_need(rng, base)
        prio = prios[u - 1] if rng.random() < 0.9 else 0
        ctl[u] = {"st": st, "prio": prio, "need": need, "mine": mine}
    init = ",".join(f"{u}:{c['st']}:{c['prio']}:{c['need']}:{'m' if c['mine'] else '-'}" for u, c in ctl.items())
    hist = []
    known = set()                                        # uuids a completed poll has shown us (satisfiable)

    def listed(c):
        return c["mine"] or (c["st"] == "Q" and c["prio"] > 0)

    def local_op():
        cand = [u for u in known if ctl[u]["st"] in "QL"]
        if not cand:
            return
        u = rng.choice(cand)
        c = ctl[u]
        op = rng.choice("LLUC") if c["st"] == "Q" else rng.choice("UUULC")
        hist.append(f"{op}{u}")
        if op == "L" and c["st"] == "Q":
            c["st"], c["mine"] = "L", True
        elif op == "U" and c["st"] == "L" and c["mine"]:
            c["st"], c["mine"] = "Q", False
        elif op == "C" and (c["st"] == "Q" or c["mine"]):
            c["st"], c["mine"] = "X", False

    def external():
        u = rng.choice(list(ctl))
        c = ctl[u]
        r = rng.random()
        if r < 0.4:
            c["prio"] = rng.choice([0, c["prio"], rng.randint(1, 30)])
        elif c["st"] == "L" and c["mine"] and r < 0.7:
            c["st"] = "R"
        elif c["st"] == "R":
            c["st"], c["mine"] = "C", False
        elif c["st"] == "Q":
            c["st"] = "X"
        hist.append(f"x{u}:{c['st']}:{c['prio']}")

    def poll(window):
        hist.append("ub")
        for _ in range(rng.choice([0, 0, 1]) if window else 0):
            local_op()
        hist.append("us")
        snap = {u: dict(c) for u, c in ctl.items()}
        for _ in range(rng.choice([1, 1, 2, 3]) if window else 0):
            local_op()
        hist.append("ue")
        for u, c in snap.items():
            if listed(c) and _cq_type(c["need"]) is not None:
                known.add(u)
            elif listed(c) and c["st"] in "QL":
                # unsatisfiable: the queue locks / flags / cancels it (unless a fault was injected)
                cur = ctl[u]
                if cur["st"] == "Q":
                    cur["st"], cur["mine"] = "L", True
                if cur["st"] == "L" and cur["mine"]:
                    if u in faults:
                        faults.discard(u)
                    else:
                        cur["st"], cur["mine"] = "X", False

    faults = set()
    for u, c in ctl.items():
        if _cq_type(c["need"]) is None and rng.random() < 0.4:
            faults.add(u)
            hist.append(f"f{u}")
    npolls = rng.choice([1, 2, 2, 3])
    for i in range(npolls):
        if i > 0 or rng.random() < 0.2:
            for _ in range(rng.choice([0, 1, 1, 2])):
                external() if rng.random() < 0.6 else local_op()
        poll(window=rng.random() < 0.6)
    # after the last complete poll only the dispatcher's own operations
    for _ in range(rng.choice([0, 0, 1, 2])):
        local_op()
    nt = rng.choice([1, 2, 3, 3, 4, 6, 6])
    quota = rng.choice([0, 0, 1, 99, 99, 99])
    cancreate = rng.choice([0, 1, 99, 99])
    types = ",".join(f"{rng.choice([0, 0, 1, 1, 2])}:{rng.choice([0, 0, 1])}:{rng.choice('iiiiifsx')}" for _ in range(nt))
    return f"cq {quota}:{cancreate} {types} {init} {','.join(hist) or '-'}"

MALFORMED = [
    "choose",
    "choose 0 - 1:1:0:0 -",
    "choose x 1:1:1:1:1:0 1:1:0:0 - -",
    "choose 0 1:1:1:1:1 1:1:0:0 - -",
    "choose 0 1:1:1:1:1:2 1:1:0:0 - -",
    "choose 0 1:1:1:1:1:0 1:1:0 - -",
    "choose 0 1:1:1:1:1:0 1:1:0:0 zz -",
    "choose 0 1:1:1:1:1:0 1:1:0:0 - tmp",
    "choose 0 1:1:1:1:1:0 1:1:0:0 - tmp=x",
    "arith zz -",
    "arith - tmp=9223372036854775808",
    "choose 0 1:1:9223372036854775808:1:1:0 1:1:0:0 - -",
    "choose 0 1:1:1:1:1:0 1:-9223372036854775809:0:0 - -",
    "choose 9223372036854775808 1:1:1:1:1:0 1:1:0:0 - -",
    "arith - tmp=",
    "rq 1 0:0:i -",
    "rq 1:1 0:0:q -",
    "rq 1:1 0:0:i 1:1:Z:0:-",
    "rq 1:1 0:0:i 1:1:L:0:z",
    "rq 1:1 0:0:i 1:1:L:0:-,1:2:L:0:-",
    "rq 1:1 0:0:i 1:1:L:0",
    "rqp 1:99 0:0:i 1:1:L:0:-",
    "rqp 0:99 0:0:s 1:1:L:0:-",
    "rqp 0:99 0:0:i 1:1:L:0:k",
    "rqp 0:99 0:0:i 1:1:L:1:-",
    "rqp 0:99 0:0:i 1:1:L:1:r",
    "cq 99:99 1:0:i 1:Q:5:1:- ub,ub",
    "cq 99:99 1:0:i 1:Q:5:1:- us",
    "cq 99:99 1:0:i 1:Q:5:1:- ub,us",
    "cq 99:99 1:0:i 1:Q:5:1:m -",
    "cq 99:99 1:0:i 1:Q:5:1:-,1:L:4:1:m -",
    "cq 99:99 1:0:i 1:Q:5:1:- x9:Q:1",
    "cq 99:99 1:0:i 1:Q:5:1:- Z1",
    "cq 99:99 1:0:i 1:Q:5:256:- ub,ue",
    "frob 1 2 3",
]


def generate(rng, tier):
    quick = tier == "quick"
    cases = list(MALFORMED)
    for _ in range(1200 if quick else 40000):
        cases.append(_gen_choose(rng))
    for _ in range(300 if quick else 6000):
        cases.append(_gen_arith(rng))
    for _ in range(1500 if quick else 60000):
        cases.append(_gen_rq(rng, 6 if quick and rng.random() < 0.7 else 8))
    for _ in range(500 if quick else 15000):
        cases.append(_gen_rq(rng, 6 if quick and rng.random() < 0.7 else 8, real=True))
    for _ in range(600 if quick else 15000):
        cases.append(_gen_cq(rng))
    for _ in range(200 if quick else 6000):
        cases.append(_gen_choose_big(rng))
    # exhaustive small scope of queue snapshot x pool state: all of it in thorough, a sample in quick
    ex = _enum_rq()
    cases.extend(rng.sample(ex, 400) if quick else ex)
    return cases


# ----------------------------------------------------------------------------- compare

def _groups_ok(names, groups):
    pos = 0
    for g in groups:
        if sorted(names[pos:pos + len(g)]) != sorted(g):
            return False
        pos += len(g)
    return pos == len(names)


def compare(case, impl, model):
    if impl == model:
        return True
    if impl.startswith(("panic", "CRASH", "timeout")) or model == "bad-op" or impl == "bad-op":
        return False
    if case.startswith("choose "):
        outs = impl.split("|")
        if model == "notconf":
            return all(o == "notconf" for o in outs)
        kind, _, rest = model.partition(" ")
        if kind == "ok":
            allowed = set(rest.split(","))
            return all(o.startswith("ok:") and o[3:] in allowed for o in outs)
        if kind == "unsat":
            groups = [g.split(",") for g in model[len("unsat "):].split("|")]
            # the model separates groups with '|' too; the implementation's '|' separates repeats
            return all(o.startswith("unsat:") and _groups_ok(o[6:].split(","), groups) for o in outs)
        return False
    if case.startswith(("rq ", "rqp ", "cq ")):
        return impl in model.split("|")
    return False


# ----------------------------------------------------------------------------- oracle (property text)

def _oracle_choose(case, impl):
    f = case.split(" ")
    reserve, ts = int(f[1]), _types(f[2])
    v, ram, keep, pre = f[3].split(":")
    v, ram, keep, pre = int(v), int(ram), int(keep), pre == "1"
    image, mounts = _unhex(f[4]), _mounts(f[5])
    total = ram + keep + reserve
    if not _in64(total * 100):
        return None                         # outside the stated arithmetic range
    need_ram = _tdiv(total * 100, 95)
    img = spec_image_size(image)
    need_scratch = spec_scratch(mounts, img)
    if not (_in64(img) and _in64(need_scratch) and _in64(sum(c for k, c in mounts if k == "tmp"))):
        return None
    byname = {t["name"]: t for t in ts}
    adequate = [t for t in ts if t["vcpus"] >= v and t["ram"] >= need_ram and t["scratch"] >= need_scratch and t["pre"] == pre]
    for o in impl.split("|"):
        if not ts:
            if o != "notconf":
                return f"no instance types are configured but the result is {o}"
            continue
        if o.startswith("ok:"):
            t = byname.get(o[3:])
            if t is None:
                return f"the chosen type is not a configured type: {o}"
            if t not in adequate:
                why = []
                if t["vcpus"] < v:
                    why.append(f"VCPUs {t['vcpus']} < {v}")
                if t["ram"] < need_ram:
                    why.append(f"RAM {t['ram']} < {need_ram} = ({ram}+{keep}+{reserve})*100/95")
                if t["scratch"] < need_scratch:
                    why.append(f"scratch {t['scratch']} < {need_scratch} = max(tmp,{img})+{img}")
                if t["pre"] != pre:
                    why.append("preemptible flag differs")
                return f"chosen type {t['name']} does not satisfy the constraints: " + "; ".join(why)
            cheaper = [a for a in adequate if a["price"] < t["price"]]
            if cheaper:
                return (f"chosen type {t['name']} (price {t['price']}/64) is not the cheapest adequate type: "
                        f"type {cheaper[0]['name']} costs {cheaper[0]['price']}/64")
        elif o.startswith("unsat:"):
            if adequate:
                return f"type {adequate[0]['name']} satisfies every constraint but the result is a constraints-not-satisfiable error"
            if ":" in o[6:]:
                return f"error result carries a type as well: {o}"
            names = o[6:].split(",") if o[6:] != "-" else []
            if sorted(names) != sorted(byname):
                return f"the error does not list exactly the configured types: {o}"
            ps = [byname[n]["price"] for n in names]
            if any(a > b for a, b in zip(ps, ps[1:])):
                return f"the error's type list is not sorted by price: {o}"
        else:
            return f"unexpected result {o}"
    return None


def _oracle_arith(case, impl):
    f = case.split(" ")
    image, mounts = _unhex(f[1]), _mounts(f[2])
    img = spec_image_size(image)
    tmp = sum(c for k, c in mounts if k == "tmp")
    sc = spec_scratch(mounts, img)
    if not (_in64(img) and _in64(tmp) and _in64(sc)):
        return None
    exp = f"img={img} scratch={sc}"
    if impl != exp:
        return f"scratch estimate differs from the documented heuristic: expected {exp}, got {impl}"
    return None


def _parse_rq(case):
    f = case.split(" ")
    ents = {}
    if f[3] != "-":
        for s in f[3].split(","):
            u, p, st, ty, fl = s.split(":")
            ents[int(u)] = {"u": int(u), "prio": int(p), "st": st, "ty": int(ty), "running": "r" in fl, "linger": "k" in fl}
    return ents


EV_START = re.compile(r"^s(\d+)\.(\d+)=([01])$")
EV_KILL = re.compile(r"^k[ls](\d+)=([01])$")
EV_UNLOCK = re.compile(r"^u(\d+)$")


def _oracle_rq(case, impl):
    ents = _parse_rq(case)
    if ";L=" not in impl:
        return "driver could not observe a pass: " + impl[:200]
    tr = impl.split(";L=")[0]
    evs = [] if tr == "-" else tr.split(",")
    started, lingering, unlocked = [], set(), set()
    for ev in evs:
        m = EV_KILL.match(ev)
        if m and m.group(2) == "1":
            lingering.add(int(m.group(1)))
        m = EV_UNLOCK.match(ev)
        if m:
            unlocked.add(int(m.group(1)))
        m = EV_START.match(ev)
        if m and m.group(3) == "1":
            ty, u = int(m.group(1)), int(m.group(2))
            b = ents.get(u)
            if b is None:
                return f"StartContainer for a container that is not in the queue: {ev}"
            for a in ents.values():
                if (a["st"] == "L" and not a["running"] and a["ty"] == b["ty"] and a["prio"] > b["prio"]
                        and a["u"] not in started and a["u"] not in lingering):
                    return (f"container {u} (priority {b['prio']}) was started on type {ty} while the Locked container "
                            f"{a['u']} (priority {a['prio']}) of the same type is still waiting for a worker")
            started.append(u)
    for ua in unlocked:
        a = ents.get(ua)
        if a is None or a["st"] != "L" or a["running"]:
            continue
        for b in ents.values():
            if b["st"] == "L" and not b["running"] and b["prio"] < a["prio"] and b["u"] not in unlocked:
                return (f"waiting Locked container {ua} (priority {a['prio']}) was unlocked while the lower-priority "
                        f"waiting container {b['u']} (priority {b['prio']}) keeps its lock")
    return None



def _oracle_cq(case, impl):
    """Judged against the controller's states (ctl0, before the pass): every schedulable cache entry carries
    the cheapest adequate configured type, an unsatisfiable container never reaches the scheduler with a
    type, every pool call names a configured type, and the two ordering clauses hold for the pass."""
    f = case.split(" ")
    need = {}
    for s in f[3].split(","):
        p = s.split(":")
        need[int(p[0])] = int(p[3])
    parts = dict(p.split("=", 1) for p in impl.split(";") if "=" in p)
    for k in ("cache", "ctl0", "tr", "ctl"):
        if k not in parts:
            return "driver could not observe the queue: " + impl[:200]
    cache = {}
    if parts["cache"] != "-":
        for s in parts["cache"].split(","):
            u, st, prio, ty = s.split(":")
            cache[int(u)] = (st, int(prio), ty)
    ctl0 = {}
    if parts["ctl0"] != "-":
        for s in parts["ctl0"].split(","):
            u, st, prio, fl = s.split(":")
            ctl0[int(u)] = (st, int(prio), "m" in fl)
    ctl1 = {}
    if parts["ctl"] != "-":
        for s in parts["ctl"].split(","):
            u, st, prio, fl = s.split(":")
            ctl1[int(u)] = (st, int(prio), "m" in fl)
    for u, (st, prio, ty) in cache.items():
        if st in "QL":
            want = _cq_type(need[u])
            if want is None:
                return (f"unsatisfiable container {u} ({_cq_show(need[u])}, state {st}) is in the queue with instance type "
                        f"{'<zero value>' if ty == 'z' else ty} instead of getting an error")
            if ty != str(want):
                return (f"container {u} ({_cq_show(need[u])}, state {st}) is in the queue with instance type "
                        f"{'<zero value>' if ty == 'z' else ty}; the cheapest configured type satisfying every constraint is {want}")
    evs = [] if parts["tr"] == "-" else parts["tr"].split(",")
    for ev in evs:
        m = re.match(r"^[cd](-?\d+)", ev) or re.match(r"^s(-?\d+)\.", ev)
        if m and m.group(1) not in ("0", "1", "2", "3", "4", "5") and ev[0] in "cs":
            return f"the scheduler asked the pool for an instance type that is not configured: {ev}"
    # ordering clauses, with "Locked" and the priorities as the controller has them
    def waiting(u):
        # an unsatisfiable container that the queue locked in order to cancel it waits for no worker
        return u in ctl0 and ctl0[u][0] == "L" and ctl0[u][2] and _cq_type(need[u]) is not None
    started = []
    for ev in evs:
        m = EV_START.match(ev)
        if m and m.group(3) == "1":
            u = int(m.group(2))
            if u in need and _cq_type(need[u]) is not None:
                tb = _cq_type(need[u])
                pb = ctl0[u][1] if u in ctl0 else 0
                for a in ctl0:
                    if (waiting(a) and a != u and a not in started and _cq_type(need[a]) == tb
                            and ctl0[a][1] > pb):
                        return (f"container {u} (priority {pb}) was started while container {a} (priority {ctl0[a][1]}), "
                                f"Locked at the controller and needing the same instance type, is still waiting for a worker")
            started.append(u)
    unlocked = [a for a in ctl0 if waiting(a) and a in ctl1 and ctl1[a][0] == "Q" and ("u%d" % a) in evs]
    for a in unlocked:
        for b in ctl0:
            if waiting(b) and b not in started and ctl0[b][1] < ctl0[a][1] and ctl1.get(b, ("",))[0] == "L":
                return (f"at quota container {a} (priority {ctl0[a][1]}) was unlocked while the lower-priority waiting "
                        f"container {b} (priority {ctl0[b][1]}) keeps its lock")
    return None

def oracle(case, impl):
    if impl.startswith(("panic", "CRASH", "timeout")):
        return "driver could not observe a result: " + impl[:200]
    try:
        if case.startswith("choose ") and impl != "bad-op":
            return _oracle_choose(case, impl)
        if case.startswith("arith ") and impl != "bad-op":
            return _oracle_arith(case, impl)
        if case.startswith(("rq ", "rqp ")) and impl != "bad-op":
            return _oracle_rq(case, impl)
        if case.startswith("cq ") and impl != "bad-op":
            return _oracle_cq(case, impl)
    except (ValueError, IndexError, KeyError):
        return None                          # malformed case line: nothing to decide
    return None


# ----------------------------------------------------------------------------- evidence helpers

def nontrivial_key(case, impl):
    f = case.split(" ")
    try:
        if f[0] == "choose":
            return case if len(_types(f[2])) >= 2 else None
        if f[0] in ("rq", "rqp"):
            ents = _parse_rq(case)
            live = [e for e in ents.values() if not e["running"] and e["prio"] >= 1 and e["st"] != "O"]
            return case if len(live) >= 2 else None
        if f[0] == "arith":
            return case if impl not in ("bad-op", "img=0 scratch=0") else None
        if f[0] == "cq":
            return case if ("ub" in f[4] and impl != "bad-op" and "cache=-;" not in impl) else None
    except (ValueError, IndexError):
        return None
    return None


def describe(cases, impl):
    d = {"ops": {}, "choose_outcomes": {}, "table_sizes": {}, "rq_sizes": {}, "rq_with_priority_ties": 0,
         "rq_events": {}, "choose_runs_with_several_results": 0}
    for c, r in zip(cases, impl):
        f = c.split(" ")
        d["ops"][f[0]] = d["ops"].get(f[0], 0) + 1
        if r is None or r == "bad-op":
            continue
        try:
            if f[0] == "choose":
                tot = sum(int(x) for x in f[3].split(":")[1:3]) + int(f[1])
                if abs(tot - RAM_SUM_BOUND) <= 1000:
                    d["choose_near_ram_bound"] = d.get("choose_near_ram_bound", 0) + 1
                    if not _in64(tot * 100):
                        d["choose_beyond_int64"] = d.get("choose_beyond_int64", 0) + 1
                k = str(len(_types(f[2])))
                d["table_sizes"][k] = d["table_sizes"].get(k, 0) + 1
                kind = r.split(":")[0].split("|")[0]
                d["choose_outcomes"][kind] = d["choose_outcomes"].get(kind, 0) + 1
                if "|" in r:
                    d["choose_runs_with_several_results"] += 1
            elif f[0] == "cq":
                needs = [int(x.split(":")[3]) for x in f[3].split(",")]
                d["cq_histories"] = d.get("cq_histories", 0) + 1
                if any(a != b and (a ^ b) == 16 for a in needs for b in needs):
                    d["cq_with_twins_differing_in_preemptible"] = d.get("cq_with_twins_differing_in_preemptible", 0) + 1
                if any(x.split(":")[4] == "m" and x.split(":")[1] == "L" for x in f[3].split(",")):
                    d["cq_restart_with_locked"] = d.get("cq_restart_with_locked", 0) + 1
            elif f[0] in ("rq", "rqp"):
                ents = _parse_rq(c)
                k = str(len(ents))
                d["rq_sizes"][k] = d["rq_sizes"].get(k, 0) + 1
                ps = [e["prio"] for e in ents.values()]
                if len(set(ps)) < len(ps):
                    d["rq_with_priority_ties"] += 1
                tr = r.split(";L=")[0]
                for ev in ([] if tr == "-" else tr.split(",")):
                    m = re.match(r"[a-z]+", ev)
                    key = m.group(0) + ("=" + ev[-1] if "=" in ev else "")
                    d["rq_events"][key] = d["rq_events"].get(key, 0) + 1
        except (ValueError, IndexError):
            pass
    return d


def neighbours(case, rng):
    f = case.split(" ")
    out = []
    try:
        if f[0] == "choose":
            v, ram, keep, pre = f[3].split(":")
            for _ in range(6):
                v2 = int(v) + rng.choice([-1, 0, 0, 1])
                ram2 = int(ram) + rng.choice([-2, -1, 0, 1, 2])
                pre2 = pre if rng.random() < 0.8 else str(1 - int(pre))
                ms = _mounts(f[5])
                if ms and rng.random() < 0.7:
                    i = rng.randrange(len(ms))
                    ms[i] = (ms[i][0], max(0, ms[i][1] + rng.choice([-1, 1])))
                mss = ";".join(f"{k}={c}" for k, c in ms) or "-"
                out.append(f"choose {f[1]} {f[2]} {v2}:{ram2}:{keep}:{pre2} {f[4]} {mss}")
            out.append(_gen_choose(rng))
        elif f[0] in ("rq", "rqp"):
            for _ in range(4):
                out.append(_gen_rq(rng, 6, real=f[0] == "rqp"))
            es = f[3].split(",") if f[3] != "-" else []
            if es:
                i = rng.randrange(len(es))
                p = es[i].split(":")
                p[1] = str(max(0, int(p[1]) + rng.choice([-1, 1])))
                es2 = list(es)
                es2[i] = ":".join(p)
                out.append(f"{f[0]} {f[1]} {f[2]} {','.join(es2)}")
                out.append(f"{f[0]} {rng.choice([0, 99] if f[0] == 'rqp' else [0, 1, 99])}:{rng.choice([0, 1, 99])} {f[2]} {f[3]}")
        elif f[0] == "arith":
            out.append(_gen_arith(rng))
        elif f[0] == "cq":
            for _ in range(5):
                out.append(_gen_cq(rng))
    except (ValueError, IndexError):
        pass
    return out
