"""C06 plugin: keep-balance acts only on a complete view of collections and block indexes.

Line protocol: see lean/ArvVerif/Driver/C06.lean. Four drivers:
  kb  services/keep-balance   page (EachCollection vs scripted collections table), run (Balancer.Run with a
                              failure injected at every request)
  arv sdk/go/arvados          idx / idxcut / idxabort     (KeepService.index)
  kc  sdk/go/keepclient       gidx / gidxcut / gidxabort  (KeepClient.GetIndex)
  ks  services/keepstore      prod / prodm                (handleIndex)
"""
import binascii
import os
import subprocess

ID = "C06"
RULE = ("page: collection tables of 0-200 rows with timestamp ties of every multiplicity (including runs longer "
        "than 3x the page size), page sizes 1..n+1 / 0 (server maximum) / server-side caps, schedules of "
        "modify/add/delete applied between page requests (fresh-now, merely per-collection-monotone, and hostile "
        "additions with old timestamps), injected request failures (500, transport error, status 200 with the body cut at "
        "byte 0 / 1 / half / last, garbage JSON; also fault sequences of 2-4 failures at consecutive or nearly "
        "consecutive requests against page sizes 1-8) and callback failures, pagecut: every truncation point of one page/count "
        "response, plus small-scope interleavings "
        "(3-6 rows, page size 1-3, ordered pairs/triples of add/modify/delete in one or two successive gaps); idx/gidx: every cut point of "
        "generated well-formed index responses plus malformed streams (blank lines, CR, bad fields, mtime syntax "
        "and range, 64KiB lines, non-200 status, dropped connections); prod: volume outputs with failures; run: "
        "Balancer.Run with a failure of each kind at every single request, and `gate` scenarios: a failing index request "
        "interleaved at statement granularity (instrumented GetCurrentState) with the collection processor/scanner "
        "held at sampled positions; gcs: single executions of the real GetCurrentState (index / addCollection / "
        "collections-request failures, controlled interleavings) whose per-goroutine statement paths must be an "
        "execution of the small-step model. Non-trivial = page case with >= 2 rows, "
        "cut/abort case with >= 1 line, run case; distinct = distinct case line")
ASSUMPTIONS = [
    "the collections list endpoint answers a page request atomically with the first `limit` (or fewer, but at "
    "least one if any match) rows of the filtered table in (modified_at, uuid) order; uuids are unique",
    "modified_at of a collection that exists throughout the scan never decreases",
    "uuid order of the database = bytewise string order used by the Go comparison (fixed-width uuids)",
    "index lines do not start with CR and contain no LF; lines are shorter than bufio's 64 KiB token limit "
    "(needed only for acceptance of the complete response, not for rejection of truncated ones)",
]
TRUSTED = [
    "instrumenter /verif/translator/instrument_c06 (add-only verifC06Point insertion into a copy of the current "
    "balance.go) and the park-and-release schedule controller of the `run … gate` cases",
    "stub API/keepstore servers inside the Go drivers (independent re-implementation of the collections list "
    "endpoint: generic filter evaluation, ordering, limit, count)",
    "GetCurrentState's small-step model leaves the number of collections / mounts and every failure to the "
    "environment; the trace acceptor is proved sound (C06_gcs_acceptor_sound), not complete",
]

DRIVERS = {
    "kb": {"kind": "gotest", "pkg": "services/keep-balance", "test": "TestVerifC06", "min_chunk": 8,
           "isolate": True, "case_timeout": 120},
    "arv": {"kind": "gotest", "pkg": "sdk/go/arvados", "test": "TestVerifC06", "min_chunk": 20},
    "kc": {"kind": "gotest", "pkg": "sdk/go/keepclient", "test": "TestVerifC06", "min_chunk": 20},
    "ks": {"kind": "gotest", "pkg": "services/keepstore", "test": "TestVerifC06"},
}


VERIF = os.path.dirname(os.path.dirname(os.path.dirname(os.path.abspath(__file__))))


def overlay_generated(repo, workdir):
    """Add-only instrumented copy of the CURRENT services/keep-balance/balance.go: verifC06Point before
    every statement of the goroutines GetCurrentState starts (a no-op unless the driver's `gate` runs
    install a schedule controller)."""
    out = os.path.join(workdir, "balance.instrumented.go")
    inst = os.path.join(VERIF, "build", "instrument_c06")
    src = os.path.join(VERIF, "translator", "instrument_c06", "main.go")
    try:
        if not os.path.exists(inst) or os.path.getmtime(inst) < os.path.getmtime(src):
            env = dict(os.environ, GOFLAGS="-mod=mod", GOPROXY="off", GOSUMDB="off", GOTOOLCHAIN="local")
            subprocess.check_call(["go", "build", "-o", inst, "./instrument_c06"],
                                  cwd=os.path.join(VERIF, "translator"), env=env)
        subprocess.check_call([inst, "-in", os.path.join(repo, "services/keep-balance/balance.go"), "-out", out,
                               "-func", "GetCurrentState"])
    except Exception as e:  # the driver build then fails and is reported as a broken correspondence
        open(out, "w").write("package main\n\nfunc init() { instrumenter failed: %s }\n" % str(e).replace("\n", " "))
    return {"services/keep-balance/balance.go": out}


def channel(case):
    op = case.split(" ", 1)[0]
    if op in ("page", "pagecut", "run", "gcs"):
        return "kb"
    if op in ("idx", "idxcut", "idxabort"):
        return "arv"
    if op in ("gidx", "gidxcut", "gidxabort"):
        return "kc"
    return "ks"


def hx(b):
    return binascii.hexlify(b).decode() or "-"


def unhx(s):
    return b"" if s == "-" else binascii.unhexlify(s)


# ------------------------------------------------------------------------------------------ generators

def _gen_page(rng, big):
    r = rng.random()
    if r < 0.55:
        n = rng.randint(0, 12)
    elif r < 0.9:
        n = rng.randint(10, 60)
    else:
        n = rng.randint(60, 200) if big else rng.randint(30, 90)
    uuids = rng.sample(range(1, 10 ** rng.choice([e for e in (2, 4, 9, 14) if 10 ** e > 2 * n + 1])), n) if n else []
    # timestamps: tie structure
    style = rng.random()
    if style < 0.2:
        times = [rng.randint(1, 50)] * n
    elif style < 0.6:
        d = max(1, rng.randint(1, max(1, n // 3)))
        times = [rng.randint(1, d) for _ in range(n)]
    elif style < 0.8:
        times = []
        t = 1
        while len(times) < n:
            run = rng.choice([1, 1, 2, 3, 5, 8, 13, 30])
            times += [t] * run
            t += rng.randint(1, 3)
        times = times[:n]
        rng.shuffle(times)
    else:
        times = [rng.randint(1, 10 ** 6) for _ in range(n)]
    nulls = False
    if rng.random() < 0.04 and n:
        nulls = True
        for i in rng.sample(range(n), rng.randint(1, min(3, n))):
            times[i] = 0
    maxtie = max([times.count(t) for t in set(times)] or [0])
    pr = rng.random()
    if pr < 0.35 and maxtie >= 3:
        ps = max(1, rng.randint(1, max(1, maxtie // 3)))
    elif pr < 0.8:
        ps = rng.randint(1, n + 1)
    elif pr < 0.9:
        ps = rng.choice([1, 2, 3])
    else:
        ps = rng.choice([0, -1, n + 5])
    cap = 0
    if rng.random() < 0.12:
        cap = rng.randint(1, max(1, ps if ps > 0 else n))
    # schedule
    now = max(times + [0]) + 1
    rows = dict(zip(uuids, times))
    est = 3 + (n // max(1, ps if ps > 0 else n + 1)) * 2 + 2 * len(set(times))
    sched = {}
    hostile = False
    nev = 0
    if rng.random() < 0.6:
        nev = rng.choice([1, 1, 2, 3, 5, 8]) if n else rng.choice([1, 2])
    fresh_uuid = 10 ** 14 + 7
    live = set(uuids)
    # gaps in chronological order, so that the clock and each row's modified_at move forward
    for k in sorted(rng.randint(0, max(1, min(est, 40))) for _ in range(nev)):
        ops = sched.setdefault(k, [])
        for _ in range(rng.choice([1, 1, 2, 3])):
            o = rng.random()
            if o < 0.5 and live:
                u = rng.choice(sorted(live))
                if rng.random() < 0.8:
                    now += rng.choice([0, 1, 1, 2])
                    t = now
                else:
                    t = rows[u] + rng.randint(0, 3)  # monotone for this row, not globally fresh
                    now = max(now, t)
                rows[u] = max(rows[u], t)
                ops.append(f"m{u}:{rows[u]}")
            elif o < 0.8:
                fresh_uuid += rng.randint(1, 5)
                u = rng.choice([fresh_uuid, rng.randint(1, 99)])
                if u in rows:
                    continue
                if rng.random() < 0.75:
                    now += rng.choice([0, 1])
                    t = now
                else:
                    t = rng.randint(1, now)  # an addition with an old timestamp
                    hostile = True
                rows[u] = t
                live.add(u)
                ops.append(f"a{u}:{t}")
            elif live:
                u = rng.choice(sorted(live))
                live.discard(u)
                ops.append(f"d{u}")
    sched = {k: v for k, v in sched.items() if v}
    sch = ";".join(f"{k}:{','.join(v)}" for k, v in sorted(sched.items())) or "-"
    fail = "-"
    if rng.random() < 0.1:
        k = rng.randint(0, max(1, min(est, 12)))
        fail = str(k) + rng.choice(_FAIL_KINDS)
        if rng.random() < 0.3:
            # a fault sequence: further failures at the following requests (a retry, if there were one,
            # would meet them)
            for _ in range(rng.choice([1, 1, 2, 3])):
                k += rng.choice([1, 1, 1, 2])
                fail += "+" + str(k) + rng.choice(_FAIL_KINDS)
    cbf = "-"
    if rng.random() < 0.06:
        cbf = str(rng.randint(0, n + 1))
    pop = ",".join(f"{u}:{t}" for u, t in zip(uuids, times)) or "-"
    return f"page {ps} {cap} {pop} {sch} {fail} {cbf}"


_FAIL_KINDS = ["", "", "n", "j", "e", "e", "b", "h", "l"]


def _gen_faultseq(rng):
    """Fault sequences against small pages: a table of 4-24 rows (ties included), page size 1-8, and 1-4
    failures (any kind) at consecutive or nearly consecutive requests, starting at any request of the
    scan - so that anything done after a first failure (a retry, a smaller page, a resumed cursor)
    meets the following failures as well."""
    n = rng.randint(4, 24)
    uuids = rng.sample(range(1, 500), n)
    d = rng.choice([1, 2, 3, n])
    times = [rng.randint(1, d) for _ in range(n)]
    ps = rng.choice([1, 1, 2, 2, 3, 4, 5, 6, 7, 8])
    npages = n // ps + 2 * d + 3
    k = rng.randint(0, min(npages, 14))
    fails = []
    for _ in range(rng.choice([1, 2, 2, 3, 3, 4])):
        fails.append(str(k) + rng.choice(_FAIL_KINDS))
        k += rng.choice([1, 1, 1, 1, 2, 3])
    sch = "-"
    if rng.random() < 0.25:
        u = rng.choice(uuids)
        sch = f"{rng.randint(1, npages)}:m{u}:{d + 1}"
    pop = ",".join(f"{u}:{t}" for u, t in zip(uuids, times))
    return f"page {ps} 0 {pop} {sch} {'+'.join(fails)} -"


def _gen_pairs(rng):
    """Small-scope interleavings: a table of 3-6 rows, page size 1-3, and an ordered pair (sometimes a
    triple) of concurrent operations injected into one gap or two successive gaps between page
    requests - add (fresh or old timestamp), modify (any row, delivered or not, to a fresh 'now'),
    delete. Orders such as 'extra callback first, then a not yet delivered row moves to the end'
    only show with at least two operations in the right order."""
    n = rng.randint(3, 6)
    uuids = rng.sample(range(1, 60), n)
    shape = rng.randrange(4)
    if shape == 0:
        times = list(range(1, n + 1))
    elif shape == 1:
        times = [2] * n
    elif shape == 2:
        times = [1 + i // 2 for i in range(n)]
    else:
        times = [rng.randint(1, 3) for _ in range(n)]
    rng.shuffle(times)
    rows = dict(zip(uuids, times))
    live = set(uuids)
    now = max(times) + 1
    ps = rng.choice([1, 1, 2, 3])
    k1 = rng.randint(1, n + 3)
    k2 = k1 if rng.random() < 0.6 else k1 + rng.randint(1, 2)
    sched = {}
    for k in [k1, k2] + ([k2] if rng.random() < 0.25 else []):
        o = rng.randrange(5)
        if o <= 1 and live:
            u = rng.choice(sorted(live))
            now += 1
            rows[u] = now
            sched.setdefault(k, []).append(f"m{u}:{now}")
        elif o == 2:
            u = rng.choice([x for x in range(1, 70) if x not in rows])
            now += 1
            rows[u] = now
            live.add(u)
            sched.setdefault(k, []).append(f"a{u}:{now}")
        elif o == 3:
            u = rng.choice([x for x in range(1, 70) if x not in rows])
            rows[u] = rng.randint(1, now)
            live.add(u)
            sched.setdefault(k, []).append(f"a{u}:{rows[u]}")
        elif live:
            u = rng.choice(sorted(live))
            live.discard(u)
            sched.setdefault(k, []).append(f"d{u}")
    sch = ";".join(f"{k}:{','.join(v)}" for k, v in sorted(sched.items())) or "-"
    pop = ",".join(f"{u}:{t}" for u, t in zip(uuids, times))
    return f"page {ps} 0 {pop} {sch} - -"


HEX = "0123456789abcdef"


def _line(rng, short):
    if short:
        d = "".join(rng.choice(HEX) for _ in range(rng.randint(1, 6)))
    else:
        d = "".join(rng.choice(HEX) for _ in range(32))
    size = rng.choice([0, 3, 67108864, rng.randint(0, 10 ** 8)])
    r = rng.random()
    if r < 0.4:
        m = rng.randint(1, 2 * 10 ** 9)              # seconds (old keepstore)
    elif r < 0.8:
        m = rng.randint(10 ** 18, 2 * 10 ** 18)      # nanoseconds
    else:
        m = rng.choice([0, 1, 10 ** 12 - 1, 10 ** 12, 2 ** 63 - 1])
    return f"{d}+{size} {m}".encode()


def _wellformed(rng, maxlines, short):
    n = rng.choice([0, 1, 1, 2, 3, maxlines])
    return [_line(rng, short) for _ in range(n)]


def _render(lines):
    return b"".join(l + b"\n" for l in lines) + b"\n"


def _malformed(rng):
    lines = _wellformed(rng, 4, True)
    w = _render(lines)
    k = rng.randint(0, 13)
    if k == 0 and lines:
        i = rng.randrange(len(lines) + 1)
        return _render(lines[:i]) + _render(lines[i:])            # blank line in the middle
    if k == 1:
        return w.replace(b"\n", b"\r\n")
    if k == 2 and lines:
        return w.replace(b" ", b"  ", 1)
    if k == 3 and lines:
        return w.replace(b" ", b" x", 1)
    if k == 4:
        return w + rng.choice([b"\n", b"x", b"a+1 5\n", b"\r", b" "])
    if k == 5:
        return w[:-1] + rng.choice([b"", b"\r", b"\r\n", b" \n"])
    if k == 6 and lines:
        return w.replace(b" ", b" " + rng.choice([b"+", b"-", b"--", b"0x", b"1_"]), 1)
    if k == 7:
        return _render(lines + [b"a " + str(rng.choice([2 ** 63 - 1, 2 ** 63, 2 ** 64, -2 ** 63, -2 ** 63 - 1])).encode()])
    if k == 8:
        return _render(lines + [rng.choice([b"\r", b"\rabc 1", b" 5", b"a ", b"a", b" ", b"a\t1", b"\x00 1", b"\xff\xfe 7"])])
    if k == 9:
        b = bytearray(w)
        if b:
            b[rng.randrange(len(b))] = rng.choice([0, 10, 13, 32, 255])
        return bytes(b)
    if k == 10:
        return bytes(rng.choice([10, 13, 32, 48, 97]) for _ in range(rng.randint(0, 6)))
    if k == 11:
        return w + w
    if k == 12:
        return b"\n" * rng.randint(0, 3)
    return w


def _gen_prod(rng):
    vols = []
    nv = rng.choice([0, 1, 1, 2, 3, 4])
    for _ in range(nv):
        ls = _wellformed(rng, 3, True)
        data = b"".join(l + b"\n" for l in ls)
        ok = rng.random() < 0.7
        if not ok and rng.random() < 0.5:
            full = _line(rng, True)
            data += full[:rng.randint(1, len(full))]   # partial line written before the error
        vols.append(f"{hx(data)}:{1 if ok else 0}")
    if nv == 1 and rng.random() < 0.5:
        return "prodm " + vols[0]
    return "prod " + (";".join(vols) or "-")


def _gen_gcs(rng):
    """One controlled execution of GetCurrentState: which failures are injected (an index request, a
    malformed collection, a collections request) and where the collection processor / scanner is held
    and the failing index worker paused."""
    nsvc = rng.randint(1, 4)
    ncoll = rng.choice([0, 1, 2, 3, 4, 6])
    ps = rng.choice([0, 1, 2, 3])
    bufs = rng.choice([1, 2, 4])
    idx = bad = page = "-"
    other = hold = pause = 0
    r = rng.random()
    if r < 0.15:
        pass
    elif r < 0.65:
        idx = rng.randrange(nsvc)
        if rng.random() < 0.85:
            other = rng.choice([1, 1, 2])
            hold = rng.randint(1, 4 + 3 * ncoll)
            pause = rng.randint(1, 4)
    elif r < 0.8:
        bad = rng.randint(0, max(0, ncoll))
    else:
        page = str(rng.randint(0, 6)) + rng.choice(["", "e"])
    if rng.random() < 0.15:
        if bad == "-":
            bad = rng.randint(0, max(0, ncoll))
        elif page == "-":
            page = str(rng.randint(0, 6)) + rng.choice(["", "e"])
    return f"gcs {nsvc} {ncoll} {ps} {bufs} {idx} {bad} {page} {other} {hold} {pause}"


def generate(rng, tier):
    big = tier != "quick"
    cases = []
    # (a) paging
    for _ in range(700 if not big else 12000):
        cases.append(_gen_page(rng, big))
    for _ in range(200 if not big else 3000):
        cases.append(_gen_pairs(rng))
    for _ in range(80 if not big else 1200):
        cases.append(_gen_faultseq(rng))
    # every truncation point of one page/count response of a scan over a static table
    for _ in range(16 if not big else 150):
        n = rng.randint(1, 7)
        us = rng.sample(range(1, 99), n)
        ts = [rng.choice([1, 1, 2, 3]) for _ in range(n)]
        pop = ",".join(f"{u}:{t}" for u, t in zip(us, ts))
        cases.append(f"pagecut {rng.choice([1, 2, 3, 0])} {pop} {rng.randint(0, n + 3)}")
    # (b) index readers: every cut point of well-formed responses
    for i in range(14 if not big else 120):
        short = not (i % 5 == 0)
        w = _render(_wellformed(rng, 3 if not big else 6, short))
        cases += [f"idxcut {hx(w)}", f"gidxcut {hx(w)}", f"idx 200 {hx(w)}", f"gidx 200 {hx(w)}"]
        if i % 3 == 0:
            a = _render(_wellformed(rng, 2, True))
            cases += [f"idxabort {hx(a)}", f"gidxabort {hx(a)}"]
    for w in (b"\n", _render([b"a+1 1"])):
        cases += [f"idxcut {hx(w)}", f"gidxcut {hx(w)}"]
    for _ in range(150 if not big else 3000):
        b = _malformed(rng)
        st = 200 if rng.random() < 0.9 else rng.choice([204, 404, 500, 503])
        cases += [f"idx {st} {hx(b)}", f"gidx {st} {hx(b)}"]
    # bufio token limit
    for n in ([65533, 65534] if not big else [65532, 65533, 65534, 65535, 70000]):
        long_ = b"a" * n + b" 1"
        cases += [f"idx 200 {hx(_render([long_]))}", f"gidx 200 {hx(_render([long_]))}",
                  f"idx 200 {hx(_render([b'a+1 1', long_])[:-1])}"]
    # producer
    for _ in range(60 if not big else 1000):
        cases.append(_gen_prod(rng))
    # (c) sweep abort
    combos = []
    for flags in ("01011", "00011", "01111", "00000", "00010", "00001", "01001", "10011", "11011", "11111"):
        for kind in ("500", "net", "trunc", "trunc1", "empty"):
            combos.append((flags, kind))
    rng.shuffle(combos)
    for flags, kind in combos[:20 if not big else len(combos)]:
        nsvc = rng.choice([1, 2, 3, 4])
        ncoll = rng.choice([0, 1, 2, 3, 5])
        ps = rng.choice([0, 1, 2, 3])
        cases.append(f"run {flags} {nsvc} {ncoll} {ps} {kind}")
    for _ in range(100 if not big else 1500):
        cases.append(_gen_gcs(rng))
    # interleavings of a failing index request with the collection pipeline of GetCurrentState
    for _ in range(3 if not big else 16):
        flags = rng.choice(["01011", "00011", "00010", "00001", "10011"])
        cases.append(f"run {flags} {rng.randint(1, 4)} {rng.randint(2, 7)} {rng.choice([0, 1, 2, 3])} gate")
    if big:
        for _ in range(60):
            flags, kind = rng.choice(combos)
            cases.append(f"run {flags} {rng.randint(1, 6)} {rng.randint(0, 9)} {rng.choice([0, 1, 2, 3, 4])} {kind}")
    return cases


# ------------------------------------------------------------------------------------------ compare

def _run_tokens(impl):
    out = []
    for tok in impl.split(","):
        p = tok.rsplit(":", 4)
        if len(p) != 5:
            return None
        try:
            out.append((p[0], int(p[1]), int(p[2]), int(p[3]), int(p[4])))
        except ValueError:
            return None
    return out


def _compare_run(case, impl, model):
    f = case.split(" ")
    nsvc = int(f[2])
    table = {}
    for row in model.split(","):
        if "=" not in row:
            return False
        k, v = row.split("=", 1)
        table[k] = v
    toks = _run_tokens(impl)
    if toks is None:
        return False
    for i, (step, err, pulls, trash, nonempty) in enumerate(toks):
        row = table.get(step)
        if row is None or row == "x":
            return False
        e, commits = row.split("/")
        commits = [] if commits == "-" else commits.split("+")
        if int(e) != err:
            return False
        if i == 0 and step == "none":
            # totals of a sweep without failure: one PUT per server per commit call (+ ClearTrashLists)
            clear = table.get("bal.ClearTrashLists", "x") != "x"
            if pulls != (nsvc if "bal.CommitPulls" in commits else 0):
                return False
            if trash != nsvc * ((1 if "bal.CommitTrash" in commits else 0) + (1 if clear else 0)):
                return False
            continue
        # after a failure: only what the guard list still executes, plus concurrent siblings of a
        # failing commit request
        max_p = nsvc if "bal.CommitPulls" in commits else 0
        max_t = nsvc if "bal.CommitTrash" in commits else 0
        if step == "bal.CommitPulls":
            max_p = max(max_p, nsvc - 1)
        if step in ("bal.CommitTrash", "bal.ClearTrashLists"):
            max_t = max(max_t, nsvc - 1)
        if pulls > max_p or trash > max_t:
            return False
    return True


_ACC = {}


def _gcs_fields(impl):
    d = {}
    for part in impl.split("|"):
        if "=" not in part:
            return None
        k, v = part.split("=", 1)
        d[k] = v
    return d if {"w", "p", "s", "res", "creq"} <= set(d) else None


def _gcs_accepts(case, impl):
    """Is the observed execution (per-goroutine statement paths + result) an execution of the Lean
    small-step model of GetCurrentState?  Decided by the model executable (op gcsacc)."""
    d = _gcs_fields(impl)
    if d is None:
        return False
    line = f"gcsacc {case.split(' ')[4]} {d['w'] or '-'} {d['p']} {d['s']} {d['res']}"
    if line not in _ACC:
        exe = os.path.join(VERIF, "lean", ".lake", "build", "bin", "arvmodel_c06")
        try:
            p = subprocess.run([exe], input=line + "\n", stdout=subprocess.PIPE, text=True, timeout=300)
            _ACC[line] = p.stdout.strip()
        except Exception as e:
            _ACC[line] = "acceptor-failed " + str(e)
    return _ACC[line] == "accept"


def compare(case, impl, model):
    op = case.split(" ", 1)[0]
    if model == "bad-op" or impl == "bad-op":
        return impl == model
    if op == "gcs":
        return model == "gcs" and _gcs_accepts(case, impl)
    if op == "pagecut":
        return model == "ok=-" and impl.endswith(" ok=-")
    if op in ("idxabort", "gidxabort"):
        a, b = impl.split(","), model.split(",")
        return len(a) == len(b) and all(x.startswith("e") for x in a)
    if op == "run":
        return _compare_run(case, impl, model)
    return impl == model


# ------------------------------------------------------------------------------------------ oracle

def _parse_sched(s):
    sched = {}
    if s != "-":
        for item in s.split(";"):
            k, ops = item.split(":", 1)
            sched[int(k)] = ops.split(",")
    return sched


def _persistent(case, nreq):
    """uuids that exist from the first to the last request of the scan and whose modified_at never
    decreased, computed from the case alone (ops scheduled for requests that were never made did
    not happen)."""
    f = case.split(" ")
    rows = {}
    if f[3] != "-":
        for p in f[3].split(","):
            u, t = p.split(":")
            rows[int(u)] = int(t)
    pers = set(rows)
    sched = _parse_sched(f[4])
    for k in sorted(sched):
        # ops for request 0 precede the scan's first request: they only change the initial table
        if k >= nreq:
            break
        for op in sched[k]:
            kind, rest = op[0], op[1:]
            if kind == "d":
                u = int(rest)
                rows.pop(u, None)
                if k > 0:
                    pers.discard(u)
            else:
                u, t = rest.split(":")
                u, t = int(u), int(t)
                if kind == "m":
                    if u in rows:
                        if t < rows[u] and k > 0:
                            pers.discard(u)
                        rows[u] = t
                else:
                    if k > 0:
                        pers.discard(u)
                    rows[u] = t
        if k == 0:
            pers = set(rows)
    return pers


def _accept_complete(body):
    """what both readers are documented to require: a terminating blank line"""
    return body == b"\n" or body.endswith(b"\n\n")


def _idx_terminated(body):
    """KeepService.index reads lines with bufio.ScanLines, which drops one CR before each LF and
    yields an empty token for a final unterminated CR: CRLF-terminated blank lines count."""
    b = body
    if b.endswith(b"\r"):
        b += b"\n"
    return _accept_complete(b.replace(b"\r\n", b"\n"))


def _wf_lines(body):
    """lines of a well-formed response, or None"""
    if not body.endswith(b"\n"):
        return None
    if body == b"\n":
        return []
    if not body.endswith(b"\n\n"):
        return None
    ls = body[:-2].split(b"\n")
    for l in ls:
        if l == b"" or l.startswith(b"\r") or len(l) >= 65536:
            return None
    return ls


def oracle(case, impl):
    f = case.split(" ")
    op = f[0]
    if impl.startswith(("panic", "CRASH", "timeout", "not-instrumented")) or "=timeout" in impl:
        return "driver could not observe the behaviour: " + impl[:200]
    if op == "page":
        if "=" not in impl:
            return "malformed trace"
        trace, outcome = impl.rsplit("=", 1)
        evs = trace.split("|") if trace else []
        if outcome == "runaway":
            return ("scan neither completed nor failed: it kept requesting pages beyond the bound of "
                    "C06_paging_progress on a table that had stopped changing")
        if outcome != "ok":
            return None
        nreq = sum(1 for e in evs if e.startswith("q:"))
        seen = {e[2:] for e in evs if e.startswith("c:")}
        missing = [u for u in sorted(_persistent(case, nreq)) if str(u) not in seen]
        if missing:
            return (f"scan returned nil but collection(s) {missing[:5]} that existed throughout the scan were "
                    f"never passed to the callback")
        return None
    if op == "pagecut":
        if " ok=" not in impl:
            return "driver could not observe the behaviour: " + impl[:200]
        oks = impl.split(" ok=", 1)[1]
        for item in ([] if oks == "-" else oks.split(",")):
            n, verdict = item.split(":", 1)
            if verdict.startswith("missing."):
                return (f"collections request {f[3]} was answered with a body cut short after {n} bytes, the scan "
                        f"returned nil, and collection {verdict[8:]} was never passed to the callback")
        return None
    if op in ("idxcut", "gidxcut"):
        body = unhx(f[1])
        ls = _wf_lines(body)
        toks = impl.split(",")
        if len(toks) != len(body) + 1:
            return "malformed cut result"
        if ls is None:
            return None
        for i, t in enumerate(toks[:-1]):
            if not t.startswith("e"):
                return f"index response truncated after {i} of {len(body)} bytes was accepted"
        want = f"o{len(ls)}" if op == "idxcut" else f"o{len(body) - 1}"
        if toks[-1] != want:
            # acceptance needs parseable lines; the generator only emits those here
            return f"complete well-formed index response not accepted as {want}: {toks[-1]}"
        return None
    if op in ("idxabort", "gidxabort"):
        for i, t in enumerate(impl.split(",")):
            if not t.startswith("e"):
                return f"index response whose connection dropped after {i} bytes was accepted"
        return None
    if op in ("idx", "gidx"):
        body = unhx(f[2])
        if impl.startswith("ok"):
            if f[1] != "200":
                return "index response with a non-200 status was accepted"
            if not (_accept_complete(body) or (op == "idx" and _idx_terminated(body))):
                return "index response without a terminating blank line was accepted"
        return None
    if op in ("prod", "prodm"):
        if impl.startswith("status"):
            return None
        body = unhx(impl)
        vols = [] if f[1] == "-" else [v.split(":") for v in f[1].split(";")]
        allok = all(v[1] == "1" for v in vols)
        if not allok and _accept_complete(body):
            return "handleIndex terminated the response with a blank line although a volume's IndexTo failed"
        if allok and body != b"".join(unhx(v[0]) for v in vols) + b"\n":
            return "handleIndex did not emit every volume's index followed by one blank line"
        return None
    if op == "gcs":
        d = _gcs_fields(impl)
        if d is None:
            return "driver could not observe the behaviour: " + impl[:200]
        injected = []
        if f[5] != "-":
            injected.append(f"index request of server {f[5]}")
        if f[6] != "-" and int(f[6]) < int(f[2]):
            injected.append(f"addCollection of collection {f[6]}")
        if f[7] != "-" and int(f[7].rstrip("e")) < int(d["creq"]):
            injected.append(f"collections request {f[7]}")
        if injected and d["res"] != "1":
            return "GetCurrentState returned nil although " + " and ".join(injected) + " failed"
        return None
    if op == "run":
        toks = _run_tokens(impl)
        if toks is None:
            return "malformed run result: " + impl[:200]
        for i, (step, err, pulls, trash, nonempty) in enumerate(toks):
            if i == 0 and step == "none":
                if err:
                    return "sweep without any failure returned an error"
                continue
            if not err:
                return f"run {i - 1}: a request of {step} failed but the sweep did not end with an error"
            if step in ("bal.CommitPulls", "bal.CommitTrash"):
                # the failing request is itself a commit request; only trash after a failed pull matters
                if step == "bal.CommitPulls" and trash:
                    return f"run {i - 1}: {trash} trash request(s) were sent after a pull request failed"
                continue
            if step == "bal.ClearTrashLists":
                if pulls or nonempty:
                    return f"run {i - 1}: pull/non-empty trash requests were sent after clearing trash lists failed"
                continue
            if pulls or trash:
                return (f"run {i - 1}: after a failed request of {step} the sweep still sent {pulls} pull and "
                        f"{trash} trash request(s)")
        return None
    return None


def nontrivial_key(case, impl):
    f = case.split(" ")
    if f[0] == "page":
        return case if f[3].count(",") >= 1 else None
    if f[0] in ("idxcut", "gidxcut", "idxabort", "gidxabort"):
        return case if len(f[1]) > 2 else None
    if f[0] == "pagecut":
        return case
    return case


def describe(cases, impl):
    d = {"ops": {}, "page": {}, "run_sweeps": 0, "cut_points": 0,
         "gcs": {"no_failure": 0, "index_failure_scheduled": 0, "index_failure_free": 0, "bad_collection": 0,
                 "page_failure": 0, "result_error": 0, "result_nil": 0}}
    pg = {"rows_0": 0, "rows_1_12": 0, "rows_13_60": 0, "rows_61_200": 0, "tie_run_gt_3x_page": 0,
          "tie_run_gt_page": 0, "with_schedule": 0, "with_request_failure": 0, "with_callback_failure": 0,
          "with_fault_sequence": 0, "null_modified_at": 0, "server_max_page": 0, "server_cap": 0,
          "outcomes": {}, "mode_requests": {"first": 0, "ge": 0, "eq": 0, "gt": 0}}
    for c, r in zip(cases, impl):
        f = c.split(" ")
        d["ops"][f[0]] = d["ops"].get(f[0], 0) + 1
        if f[0] == "page":
            ts = [] if f[3] == "-" else [int(p.split(":")[1]) for p in f[3].split(",")]
            n = len(ts)
            pg["rows_0" if n == 0 else "rows_1_12" if n <= 12 else "rows_13_60" if n <= 60 else "rows_61_200"] += 1
            ps = int(f[1])
            mt = max([ts.count(t) for t in set(ts)] or [0])
            if ps > 0 and mt > 3 * ps:
                pg["tie_run_gt_3x_page"] += 1
            if ps > 0 and mt > ps:
                pg["tie_run_gt_page"] += 1
            pg["with_schedule"] += f[4] != "-"
            pg["with_request_failure"] += f[5] != "-"
            pg["with_fault_sequence"] += "+" in f[5]
            pg["with_callback_failure"] += f[6] != "-"
            pg["null_modified_at"] += 0 in ts
            pg["server_max_page"] += ps <= 0
            pg["server_cap"] += f[2] != "0"
            if r and "=" in r:
                tr, out = r.rsplit("=", 1)
                pg["outcomes"][out] = pg["outcomes"].get(out, 0) + 1
                for e in tr.split("|"):
                    if e.startswith("q:none"):
                        flt = e.split(":")[4]
                        k = "first" if flt == "-" else "ge" if ">=" in flt else "eq" if "modified_at=" in flt else "gt"
                        pg["mode_requests"][k] += 1
        elif f[0] == "gcs":
            g = d["gcs"]
            if f[5] == "-" and f[6] == "-" and f[7] == "-":
                g["no_failure"] += 1
            if f[5] != "-":
                g["index_failure_scheduled" if f[8] != "0" else "index_failure_free"] += 1
            g["bad_collection"] += f[6] != "-"
            g["page_failure"] += f[7] != "-"
            if r and "res=1" in r:
                g["result_error"] += 1
            elif r and "res=0" in r:
                g["result_nil"] += 1
        elif f[0] == "run" and r:
            d["run_sweeps"] += r.count(",") + 1
        elif f[0] in ("idxcut", "gidxcut", "idxabort", "gidxabort") and r:
            d["cut_points"] += r.count(",") + 1
        elif f[0] == "pagecut" and r and r.startswith("len="):
            d["page_cut_points"] = d.get("page_cut_points", 0) + int(r[4:].split(" ")[0])
    d["page"] = pg
    return d


def neighbours(case, rng):
    f = case.split(" ")
    out = []
    if f[0] == "page":
        for _ in range(6):
            g = list(f)
            k = rng.randrange(4)
            if k == 0:
                g[1] = str(rng.randint(1, 6))
            elif k == 1:
                g[4] = "-"
            elif k == 2:
                g[5] = "-"
                g[6] = "-"
            else:
                rows = [] if g[3] == "-" else g[3].split(",")
                if len(rows) > 1:
                    rows.pop(rng.randrange(len(rows)))
                    g[3] = ",".join(rows)
            out.append(" ".join(g))
        out.append(_gen_page(rng, False))
    elif f[0] == "gcs":
        out.append(case)
        out += [_gen_gcs(rng) for _ in range(3)]
    elif f[0] == "run":
        out.append(case)
        out.append(f"run {f[1]} {rng.randint(1, 4)} {rng.randint(0, 4)} {rng.randint(0, 3)} {f[5]}")
    else:
        out.append(case)
        w = _render(_wellformed(rng, 3, True))
        out += [f"idxcut {hx(w)}", f"gidxcut {hx(w)}", _gen_prod(rng)]
    return out
