"""C10 plugin: all manifest codecs agree with the published manifest format.

Case lines (manifest text, names and paths are hex encoded; '-' is the empty string):
  m.seg  H          Go manifest package: Manifest.segment()           (driver "m", isolate)
  m.iter H P        Manifest.FileSegmentIterByName(path), unfiltered
  m.ext  H S R      Manifest.Extract(srcpath, relocate)
  m.fb   o0,..,on s firstBlock(offsets, start)
  m.esc  N          EscapeName / UnescapeName
  m.fix  P          fixStreamName (path.Clean) and splitPath on an arbitrary path string
  m.clean P         path.Clean itself (every string over {'.', '/', 'a'} up to a length bound, plus random ones)
  m.num  S          strconv.ParseUint(S,10,64) ParseInt(S,10,64) ParseInt(S,10,32) ParseInt(S,10,0) ParseUint(S,16,64)
  m.loc  S          blockdigest.IsBlockLocator / ParseBlockLocator, manifest.ParseBlockLocator, blockdigest.FromString
  a.fs   H          Go collection filesystem loaded from the manifest  (driver "a")
  a.pdh  H          PortableDataHash + Collection.SizedDigests
  a.esc  N          manifestEscape / manifestUnescape
  p.seg  H          Python locators_and_ranges + normalize_stream      (driver "p"; valid manifests only)
  p.lr   sizes s n  locators_and_ranges on raw block sizes
  p.fb   sizes s    first_block
  p.esc  N          escape
  p.rr   W s n      replace_range for each write of W (start,size,k,off; locator b<k>) on one list, then the list and
                    locators_and_ranges(list, s, n)

The oracle below is an independent reference interpreter written from
doc/architecture/manifest-format.html.textile.liquid; it never looks at the Lean model.
"""
import binascii
import functools
import hashlib
import re

ID = "C10"
RULE = ("grammar-directed manifests (1-4 streams, 1-5 blocks of size 0-20 drawn from a per-manifest pool so that "
        "blocks repeat, interior zero-length blocks, file tokens starting/ending at every block-boundary alignment "
        "(on, one before, one after, inside), zero-length and repeated file tokens, names with space, colon, "
        "backslash, backslash-digit sequences, control and non-ASCII bytes (raw and as \\ooo escapes), filenames with '/', "
        "sibling directories whose names are string prefixes of each other), every codec run on "
        "each manifest, every (srcpath, relocate) pair over the manifest's directories/files for Extract; direct "
        "binary-search cases over non-decreasing offset arrays; replace_range write sequences on one segment list "
        "(starts/ends on, next to and inside segment boundaries, appends continuing the last block, writes past the "
        "end) followed by locators_and_ranges; escape round trips on random byte strings; "
        "larger streams (6-12 blocks of size up to 70, up to 12 file tokens); grammar-valid manifests with a file/directory conflict; streams with block sizes near 2^63 (lengths up to "
        "and beyond 2^64); a "
        "malformed stream (arbitrary bytes over a manifest-like alphabet and single-token mutations of valid "
        "manifests incl. 2^31/2^63/2^64 boundary numbers); dedicated streams for the hand-transcribed library "
        "semantics: path.Clean on EVERY string over {'.','/','a'} of length <= 6 (quick) / <= 8 (thorough) plus random "
        "strings, strconv.ParseInt/ParseUint on signed/padded decimal and hex strings around 2^15/2^31/2^32/2^63/2^64/"
        "10^19 and on malformed numerals, blockdigest locator parsing on valid, upper-case and single-character-"
        "mutated locators. A case is non-trivial when its manifest is valid and "
        "has a multi-segment file, a zero-length block or an escaped name, or when it is malformed and rejected; "
        "distinct = distinct case line")
ASSUMPTIONS = [
    "escape language of the specification: the document defines only \\040; the reference interpreter (and the Lean "
    "spec) use the de-facto generalisation \\ooo (000-377) and treat any other backslash as outside the grammar, "
    "because the Go codecs (\\\\ -> \\) and the Python SDK (no \\\\) disagree there",
    "a manifest in which one path is both a file and a directory is outside 'valid' (the grammar is silent; a "
    "filesystem cannot represent it)",
    "the same digest always carries the same size within one manifest (true of real MD5 digests); block sizes "
    "stay below 2^31 (the collection filesystem reads them as int32); manifests with larger sizes are held to the "
    "no-panic clause only",
    "block contents are synthetic: byte j of a block with hash token h is (h[j mod 32] + 31 j) mod 256",
]
TRUSTED = [
    "executable MD5 in Lean (ArvVerif/Base/MD5.lean), compared with Go crypto/md5 through every a.pdh case",
    "the Python driver's own tokenizer (harness/py/c10_ranges_driver.py): the anchored Python modules are a range "
    "mapper and a normalizer, not a parser",
    "hand-written Lean models of Go regexp matching for the five literal patterns involved (tied by literal equality "
    "and exercised on arbitrary bytes), of strconv.ParseInt/ParseUint, strings.Split, path.Clean, sort.Strings",
]

DRIVERS = {
    "m": {"kind": "gotest", "pkg": "sdk/go/manifest", "test": "TestVerifC10", "isolate": True,
          "timeout": 300, "case_timeout": 30},
    "a": {"kind": "gotest", "pkg": "sdk/go/arvados", "test": "TestVerifC10", "isolate": True,
          "timeout": 300, "case_timeout": 30},
    # same package and test as "m"; takes the cases with 19-digit numbers (the ones that used to crash
    # the process: F10a, F10d) so that a crash would disturb only this small shard
    "mx": {"kind": "gotest", "pkg": "sdk/go/manifest", "test": "TestVerifC10", "isolate": True,
           "timeout": 300, "case_timeout": 30, "shards": 2},
    "p": {"kind": "python", "script": "harness/py/c10_ranges_driver.py", "timeout": 300},
}

EMPTY = "d41d8cd98f00b204e9800998ecf8427e"


def channel(case):
    if case[0] == "m" and case[:5] in ("m.seg", "m.ext", "m.ite"):
        f = case.split(" ")
        if len(f) > 1 and _has_big_number(f[1]):
            return "mx"
    return case[0]


@functools.lru_cache(maxsize=8192)
def _has_big_number(hexm):
    """a number of 19 or more digits (candidates for uint64 overflow: file tokens, block sizes)"""
    try:
        return re.search(rb"[0-9]{19,}", unhex(hexm)) is not None
    except Exception:
        return False


def hx(b):
    if isinstance(b, str):
        b = b.encode("latin-1")
    return binascii.hexlify(b).decode() or "-"


def unhex(s):
    return b"" if s == "-" else binascii.unhexlify(s)


# ----------------------------------------------------------------------------- reference interpreter
# Written from the format document: manifest ::= stream*; stream ::= name (" " locator)+
# (" " file-segment)+ "\n"; positions refer to the logical concatenation of the stream's blocks;
# repeated file tokens with the same combined path concatenate in order of appearance.

GO_LOC_RE = re.compile(rb'^[0-9a-fA-F]{32}\+[0-9]+(\+[A-Z][A-Za-z0-9@_-]*)*\Z')       # blockdigest.LocatorPattern
DOC_LOC_RE = re.compile(rb'^([0-9a-f]{32})\+([0-9]+)((?:\+[A-Z][-A-Za-z0-9@_]*)*)\Z')  # the format document
LOC_RE = re.compile(rb'^([0-9a-f]{32})\+([0-9]+)(\+[A-Z][-A-Za-z0-9@_]*)*$')
FILE_RE = re.compile(rb'^([0-9]+):([0-9]+):(.+)$', re.S)


def ref_unescape(tok):
    """\\ooo -> byte; None when the token holds a backslash that is not such an escape."""
    out, i = bytearray(), 0
    while i < len(tok):
        c = tok[i]
        if c == 0x5c:
            d = tok[i + 1:i + 4]
            if len(d) == 3 and d[0] in b"0123" and d[1] in b"01234567" and d[2] in b"01234567":
                out.append(int(d, 8))
                i += 4
                continue
            return None
        out.append(c)
        i += 1
    return bytes(out)


def ref_components_ok(comps):
    return all(c != b"" and c != b"." and c != b".." for c in comps)


def ref_parse(txt):
    """-> list of (name, [(loctext, size)], [(pos, size, fname)]) or None if outside the grammar."""
    if txt == b"":
        return []
    if not txt.endswith(b"\n"):
        return None
    streams = []
    for line in txt[:-1].split(b"\n"):
        toks = line.split(b" ")
        for t in toks:
            if t == b"" or any(c < 0x21 or c == 0x7f for c in t):
                return None
        name = ref_unescape(toks[0])
        if name is None:
            return None
        comps = name.split(b"/")
        if comps[0] != b"." or not ref_components_ok(comps[1:]):
            return None
        i, blocks = 1, []
        while i < len(toks):
            m = LOC_RE.match(toks[i])
            if not m:
                break
            blocks.append((toks[i], int(m.group(2))))
            i += 1
        files = []
        total = sum(s for _, s in blocks)
        for t in toks[i:]:
            m = FILE_RE.match(t)
            if not m:
                return None
            fname = ref_unescape(m.group(3))
            if fname is None or not ref_components_ok(fname.split(b"/")):
                return None
            pos, size = int(m.group(1)), int(m.group(2))
            if pos + size > total:
                return None
            files.append((pos, size, fname))
        if not blocks or not files:
            return None
        streams.append((name, blocks, files))
    return streams


def ref_token_segments(blocks, pos, size):
    """the pieces of [pos, pos+size) in the concatenation of the blocks, block by block"""
    out, start = [], 0
    for loc, bsz in blocks:
        lo, hi = max(pos, start), min(pos + size, start + bsz)
        if lo < hi:
            out.append((loc, lo - start, hi - lo))
        start += bsz
    return out


def ref_resolve(streams):
    """-> ordered dict path -> list of (loctext, offset, length)"""
    files = {}
    for name, blocks, fts in streams:
        for pos, size, fname in fts:
            files.setdefault(name + b"/" + fname, []).extend(ref_token_segments(blocks, pos, size))
    return files


def block_byte(loc, j):
    h = loc.split(b"+")[0]
    return ((h[j % len(h)] if h else 0) + 31 * j) & 0xff


def seg_bytes(segs):
    return bytes(block_byte(loc, off + k) for loc, off, ln in segs for k in range(ln))


def norm_segs(segs):
    out = []
    for loc, off, ln in segs:
        if ln <= 0:
            continue
        if out and out[-1][0] == loc and out[-1][1] + out[-1][2] == off:
            out[-1] = (loc, out[-1][1], out[-1][2] + ln)
        else:
            out.append((loc, off, ln))
    return out


def tree_conflict(paths):
    files = set(paths)
    for p in paths:
        comps = p.split(b"/")
        for k in range(1, len(comps)):
            if b"/".join(comps[:k]) in files:
                return True
    return False


def dirs_of(paths):
    ds = set()
    for p in paths:
        comps = p.split(b"/")
        for k in range(2, len(comps)):
            ds.add(b"/".join(comps[:k]))
    return ds


@functools.lru_cache(maxsize=4096)
def ref_of(hexm):
    txt = unhex(hexm)
    streams = ref_parse(txt)
    if streams is None:
        return None
    files = ref_resolve(streams)
    huge = any(sz >= 1 << 31 for _, bl, _ in streams for _, sz in bl)
    return {"streams": streams, "files": files, "conflict": tree_conflict(list(files)), "huge": huge,
            "bytes": {} if huge else {p: seg_bytes(s) for p, s in files.items()}}


def strip_hints(txt):
    """manifest text with every locator reduced to hash+size (valid manifests)"""
    lines = []
    for line in txt[:-1].split(b"\n") if txt else []:
        toks = line.split(b" ")
        out = [toks[0]]
        for t in toks[1:]:
            m = LOC_RE.match(t)
            out.append(m.group(1) + b"+" + m.group(2) if m else t)
        lines.append(b" ".join(out))
    return b"".join(l + b"\n" for l in lines)


def lenient_sizes(txt):
    """For the 'not partially applied' clause on inputs outside the grammar: per line the stream
    length claimed by locator-like tokens and the file tokens (pos, size); None if a line has none."""
    lines = txt.split(b"\n")
    if lines and lines[-1] == b"":
        lines.pop()
    out = []
    for line in lines:
        if line == b"":
            continue
        total, nloc, fts = 0, 0, []
        for t in line.split(b" ")[1:]:
            m = re.match(rb'^([+-]?[0-9]+):([+-]?[0-9]+):', t)    # Go's ParseInt also takes a sign ("+1", "-0")
            if m:
                fts.append((int(m.group(1)), int(m.group(2))))
                continue
            m2 = re.match(rb'^[^:+]*\+([0-9]+)(\+.*)?$', t, re.S)
            if m2 and not fts:
                total += int(m2.group(1))
                nloc += 1
        out.append((total, nloc, fts))
    return out


# ----------------------------------------------------------------------------- parsing driver output

def parse_segs(s, hexloc=False):
    if s == "-":
        return []
    out = []
    for e in s.split(","):
        loc, off, ln = e.rsplit(":", 2)
        out.append((unhex(loc) if hexloc else loc.encode(), int(off), int(ln)))
    return out


def parse_files(s):
    """'hexpath=segs;...' -> dict"""
    d = {}
    if s == "-":
        return d
    for e in s.split(";"):
        p, segs = e.split("=", 1)
        d[unhex(p)] = parse_segs(segs)
    return d


def parse_fs(s):
    dirs, files = set(), {}
    if s != "-":
        for e in s.split(";"):
            f = e.split(":", 1)
            if f[0] == "d":
                dirs.add(unhex(f[1]))
            else:
                p, size, rest = f[1].split(":", 2)
                segs, content = rest.rsplit(":", 1)
                files[unhex(p)] = (int(size), parse_segs(segs, hexloc=True), unhex(content))
    return dirs, files


# ----------------------------------------------------------------------------- Extract semantics (from its doc comment)

def clean_path(p):
    """path.Clean + fixStreamName for the relative paths the generator produces"""
    comps = []
    for c in p.split(b"/"):
        if c in (b"", b"."):
            continue
        if c == b"..":
            if comps:
                comps.pop()
            continue
        comps.append(c)
    return b"/".join([b"."] + comps)


def go_path_clean(p):
    """Go path.Clean, from its documentation: collapse slashes, drop '.', resolve inner '..', drop '..' at the root,
    '' -> '.'"""
    if p == b"":
        return b"."
    rooted = p.startswith(b"/")
    out = []
    for c in p.split(b"/"):
        if c in (b"", b"."):
            continue
        if c == b"..":
            if out and out[-1] != b"..":
                out.pop()
            elif not rooted:
                out.append(c)
            continue
        out.append(c)
    r = b"/".join(out)
    return (b"/" + r) if rooted else (r or b".")


def go_fix_stream_name(p):
    c = go_path_clean(p)
    if c.startswith(b"/"):
        return b"." + c
    return c if c == b"." else b"./" + c


def expected_extract(ref, src, reloc):
    src_c = clean_path(src)
    rel_c = clean_path(reloc)
    files = ref["bytes"]
    if src_c in files:
        if reloc.endswith(b"/") or rel_c == b".":
            return {rel_c + b"/" + src_c.split(b"/")[-1]: files[src_c]}
        return {rel_c: files[src_c]}
    out = {}
    for p, b in files.items():
        d = p.rsplit(b"/", 1)[0]
        if d == src_c or d.startswith(src_c + b"/"):
            out[rel_c + p[len(src_c):]] = b
    return out


# ----------------------------------------------------------------------------- oracle

def oracle(case, impl):
    f = case.split(" ")
    op = f[0]
    if impl.startswith("CRASH") or impl.startswith("panic") or impl == "HANG" or impl.startswith("exc "):
        # crash / hang / exception: always a violation for parsers on any input string; for the
        # direct binary-search and range ops only inside their precondition
        if op in ("m.fb",):
            offs = [int(x) for x in f[1].split(",")]
            if len(offs) < 2:
                return None            # no block at all: outside the precondition (streams have >= 1 block)
        if op in ("p.fb", "p.lr") and f[1] == "-":
            return None
        if op == "p.rr" and rr_reference(f[1]) is None:
            return None            # a write beyond the end of the file: outside replace_range's precondition
        return f"no-panic clause: {op} ended with {impl[:120]}"
    if impl.startswith("err-with-partial-result"):
        return "error returned together with a partial result"
    if impl.startswith("readfail"):
        return "reading a loaded file failed: " + impl
    if impl == "bad-op":
        return "driver could not run the case"
    if op in ("m.seg", "m.iter", "m.ext", "a.fs", "a.pdh", "p.seg"):
        ref = ref_of(f[1])
        txt = unhex(f[1])
        if ref is None:
            return oracle_malformed(op, txt, impl)
        if ref["huge"]:
            return None     # block sizes beyond what the codecs' integer types hold: only the no-panic clause (above)
        if op == "a.pdh":
            pdh, sds = impl.split(" ")
            st = strip_hints(txt)
            exp = hashlib.md5(st).hexdigest() + "+" + str(len(st))
            if pdh != exp:
                return f"portable data hash {pdh} is not md5+length of the hint-stripped text ({exp})"
            exp_sd = ",".join((LOC_RE.match(l).group(1) + b"+" + LOC_RE.match(l).group(2)).decode()
                              for _, bl, _ in ref["streams"] for l, _ in bl) or "-"
            if sds != exp_sd:
                return f"SizedDigests {sds[:200]} differ from the hash+size of every locator"
            return None
        if impl == "err":
            if op == "a.fs" and ref["conflict"]:
                return None
            return f"valid manifest rejected by {op}"
        if not impl.startswith("ok"):
            return "unexpected output " + impl[:100]
        want = ref["files"]
        if op == "m.seg":
            got = parse_files(impl[3:])
            return cmp_files(got, want)
        if op == "m.iter":
            p = unhex(f[2])
            got = parse_segs(impl[3:])
            if norm_segs(got) != norm_segs(want.get(clean_path(p), [])):
                return f"FileSegmentIterByName({p!r}) segments differ from the format's semantics"
            return None
        if op == "p.seg":
            g = impl.split(" ")
            why = cmp_files(parse_files(g[1]), want)
            if why:
                return "python: " + why
            nref = ref_parse(unhex(g[2]))
            if nref is None:
                return "python normalize_stream output is not a valid manifest"
            nb = {p: seg_bytes(s) for p, s in ref_resolve(nref).items()}
            if nb != ref["bytes"]:
                return "python normalize_stream does not preserve file names/bytes"
            return None
        if op == "a.fs":
            if ref["conflict"]:
                return None
            dirs, files = parse_fs(impl[3:])
            if set(files) != set(want):
                return f"filesystem has files {sorted(files)[:5]} expected {sorted(want)[:5]}"
            if dirs != dirs_of(list(want)):
                return "filesystem directories differ from the parents of the manifest's files"
            for p, (size, segs, content) in files.items():
                if norm_segs(segs) != norm_segs(want[p]):
                    return f"stored segments of {p!r} differ from the format's semantics"
                if size != len(ref["bytes"][p]):
                    return f"size of {p!r} is {size}, the format says {len(ref['bytes'][p])}"
                if content != ref["bytes"][p]:
                    return f"bytes read from {p!r} differ from the format's semantics"
            return None
        if op == "m.ext":
            if ref["conflict"]:
                return None
            out = unhex(impl[3:]) if len(impl) > 3 else b""
            oref = ref_parse_lenient_names(out)
            if oref is None:
                return "Extract output is not a parseable manifest"
            got = {p: seg_bytes(s) for p, s in ref_resolve(oref).items()}
            exp = expected_extract(ref, unhex(f[2]), unhex(f[3]))
            if got != exp:
                return (f"Extract({unhex(f[2])!r},{unhex(f[3])!r}) does not preserve names/bytes: "
                        f"got {sorted(got)[:4]} expected {sorted(exp)[:4]}")
            return None
    if op in ("m.esc", "a.esc"):
        n = unhex(f[1])
        e, u, ue = impl.split(" ")
        if unhex(ue) != n:
            return "unescape(escape(name)) differs from name"
        spec_u = ref_unescape(n)
        if spec_u is not None and unhex(u) != spec_u:
            return f"unescape of {n!r} gives {unhex(u)!r}, the escape rule (\\ooo = byte value) says {spec_u!r}"
        if any(c <= 0x20 for c in unhex(e)):
            return "escaped name contains a delimiter/control byte"
        return None
    if op == "m.fix":
        n = unhex(f[1])
        fx, sn, fn = (unhex(x) for x in impl.split(" "))
        if fx != go_fix_stream_name(n):
            return f"fixStreamName({n!r}) = {fx!r}, path.Clean's rules give {go_fix_stream_name(n)!r}"
        i = n.rfind(b"/")
        if (sn, fn) != ((n[:i], n[i + 1:]) if i >= 0 else (n, b"")):
            return f"splitPath({n!r}) = {(sn, fn)!r}"
        return None
    if op == "m.clean":
        n = unhex(f[1])
        if unhex(impl) != go_path_clean(n):
            return f"path.Clean({n!r}) = {unhex(impl)!r}, its documented rules give {go_path_clean(n)!r}"
        return None
    if op == "m.num":
        n = unhex(f[1])
        g = impl.split(" ")
        want = [ref_strconv(n, False, 64), ref_strconv(n, True, 64), ref_strconv(n, True, 32), ref_strconv(n, True, 64),
                ref_strconv(n, False, 64, 16)]
        names = ["ParseUint(10,64)", "ParseInt(10,64)", "ParseInt(10,32)", "ParseInt(10,0)", "ParseUint(16,64)"]
        for nm, w, got in zip(names, want, g):
            if got != ("e" if w is None else str(w)):
                return f"strconv.{nm} of {n!r} gives {got}, the documented syntax/range gives {w}"
        return None
    if op == "m.loc":
        n = unhex(f[1])
        isl, p1, p2, fs = impl.split(" ")
        if p1 != p2:
            return "blockdigest.ParseBlockLocator and manifest.ParseBlockLocator disagree"
        m = DOC_LOC_RE.match(n)
        if m and int(m.group(2)) < 2**63:
            hints = m.group(3).decode().split("+")[1:]
            exp = f"{m.group(1).decode()}:{int(m.group(2))}:{','.join(hints) or '-'}"
            if isl != "1" or p1 != exp:
                return f"locator {n!r} of the grammar parsed as {isl} {p1}, the grammar reads {exp}"
        if not GO_LOC_RE.match(n) and (isl != "0" or p1 != "err"):
            return f"string {n!r} outside the locator pattern accepted as a locator"
        exp_fs = n.decode("latin-1").lower() if len(n) == 32 and all(c in b"0123456789abcdefABCDEF" for c in n) else "err"
        if fs != exp_fs:
            return f"blockdigest.FromString({n!r}).String() = {fs}, expected {exp_fs}"
        return None
    if op == "p.esc":
        n = unhex(f[1])
        e = unhex(impl)
        if any(c <= 0x20 for c in e) or ref_unescape(e) != n:
            return "python escape is not inverted by \\ooo unescaping"
        return None
    if op in ("m.fb", "p.fb"):
        if op == "m.fb":
            offs = [int(x) for x in f[1].split(",")]
        else:
            offs = [0]
            for s in (f[1].split(",") if f[1] != "-" else []):
                offs.append(offs[-1] + int(s))
        start = int(f[2])
        if len(offs) < 2 or any(a > b for a, b in zip(offs, offs[1:])):
            return None
        exp = [i for i in range(len(offs) - 1) if offs[i] <= start < offs[i + 1]]
        want = str(exp[0]) if exp else ("-1" if op == "m.fb" else "none")
        if impl != want:
            return f"binary search returned {impl}, the block containing offset {start} is {want}"
        return None
    if op == "p.rr":
        # semantics of overwriting a range of a file: afterwards position q of the file is byte off+(q-start) of
        # the written locator for q inside the range, and what it was before everywhere else
        want = rr_reference(f[1])
        if want is None:
            return None
        g = impl.split(" ")
        got, pos = [], None
        for e in ([] if g[1] == "-" else g[1].split(",")):
            loc, a, b, o = e.rsplit(":", 3)
            a, b, o = int(a), int(b), int(o)
            if pos is not None and a != pos:
                return f"replace_range left a list that is not contiguous at {a}"
            if pos is None and a != 0 and want:
                return "replace_range left a list that does not start at 0"
            pos = a + b
            got += [(loc, o + k) for k in range(b)]
        if got != want:
            return "after replace_range the segment list does not describe the file with the ranges overwritten"
        start, size = int(f[2]), int(f[3])
        if start + size <= len(want):
            rd = [(loc.decode(), off + k) for loc, off, ln in parse_segs(g[2]) for k in range(ln)]
            if rd != want[start:start + size]:
                return "locators_and_ranges over the list left by replace_range differs from the file's bytes"
        return None
    if op == "p.lr":
        sizes = [int(s) for s in f[1].split(",")] if f[1] != "-" else []
        start, size = int(f[2]), int(f[3])
        if start + size > sum(sizes):
            return None
        blocks = [(b"b%d" % i, s) for i, s in enumerate(sizes)]
        if norm_segs(parse_segs(impl[3:])) != norm_segs(ref_token_segments(blocks, start, size)):
            return "locators_and_ranges differs from the format's semantics"
        return None
    return None


@functools.lru_cache(maxsize=4096)
def rr_reference(ws):
    """the file as a list of (locator, offset in block) per position after the writes; None if a write starts
    beyond the current end (replace_range assumes contiguous segments)"""
    file = []
    if ws != "-":
        for w in ws.split(";"):
            a, b, k, o = (int(x) for x in w.split(","))
            if b == 0:
                continue
            if a > len(file):
                return None
            file[a:a + b] = [("b%d" % k, o + j) for j in range(b)]
    return file


def ref_strconv(s, signed, bits, base=10):
    """strconv.ParseInt / ParseUint from their documentation: optional sign (ParseInt only), then one or more digits
    of the base, nothing else (underscores and base prefixes only with base 0); out of range is an error"""
    digits = b"0123456789" if base == 10 else b"0123456789abcdefABCDEF"
    neg = False
    if signed and s[:1] in (b"+", b"-"):
        neg = s[:1] == b"-"
        s = s[1:]
    if not s or any(c not in digits for c in s):
        return None
    v = int(s.decode(), base)
    if signed:
        v = -v if neg else v
        return v if -(1 << (bits - 1)) <= v < (1 << (bits - 1)) else None
    return v if v < (1 << bits) else None


def ref_parse_lenient_names(txt):
    """reference parse of a codec's own output; tolerates a raw 0x7f (no codec escapes DEL)"""
    return ref_parse(txt.replace(b"\x7f", b"\\177"))


def cmp_files(got, want):
    if set(got) != set(want):
        return f"file set {sorted(got)[:5]} differs from the manifest's {sorted(want)[:5]}"
    for p in want:
        if norm_segs(got[p]) != norm_segs(want[p]):
            return f"segments of {p!r} differ from the format's semantics: {got[p][:4]} vs {want[p][:4]}"
    return None


def oracle_malformed(op, txt, impl):
    """Input outside the grammar: error, or complete application (never a partial one)."""
    if op in ("a.pdh", "m.iter", "p.seg"):
        return None
    if impl == "err":
        return None
    if not impl.startswith("ok"):
        return "unexpected output " + impl[:100]
    if not txt.endswith(b"\n") and txt != b"" and op == "a.fs":
        return "manifest without trailing newline accepted"
    claimed = 0
    for total, nloc, fts in lenient_sizes(txt):
        if nloc == 0:
            return "stream without locators accepted"
        if not fts:
            return "stream without file tokens accepted"
        for pos, size in fts:
            if pos < 0 or size < 0:
                return f"malformed manifest accepted: file token with negative position/size {pos}:{size}"
            if pos + size > total:
                return f"malformed manifest accepted: file token {pos}:{size} exceeds the {total}-byte stream"
            claimed += size
    if op == "m.seg":
        got = sum(ln for segs in parse_files(impl[3:]).values() for _, _, ln in segs)
    elif op == "a.fs":
        got = sum(sz for sz, _, _ in parse_fs(impl[3:])[1].values())
    elif op == "m.ext":
        return None
    else:
        return None
    if got != claimed:
        return f"malformed manifest partially applied: file tokens claim {claimed} bytes, result holds {got}"
    return None


# ----------------------------------------------------------------------------- compare (model vs implementation)

def canon(case, out):
    op = case.split(" ", 1)[0]
    if out.startswith("CRASH panic:"):
        return "CRASH"
    if out.startswith("CRASH") or out == "HANG":
        return out.split(" ")[0]
    if out.startswith("panic"):
        return "panic"
    if out.startswith("exc"):
        return "exc"
    if out.startswith("ok ") and op in ("m.seg", "a.fs", "p.seg"):
        g = out.split(" ")
        g[1] = ";".join(sorted(g[1].split(";")))
        return " ".join(g)
    return out


def compare(case, impl, model):
    ci, cm = canon(case, impl), canon(case, model)
    if cm == "panic" and ci in ("CRASH", "panic"):
        return True
    return ci == cm


# ----------------------------------------------------------------------------- findings

def finding_of(case, impl, why):
    """No known (unrepaired) finding is left for C10: F3, F5, F6, F6py, F10a-F10e are fixed in /repo and their witnesses
    are corpus cases that must pass; every violation is reported."""
    return None


def go_unescape(tok):
    """manifest.UnescapeName"""
    def rep(m):
        g = m.group(0)
        if g == b"\\\\":
            return b"\\"
        try:
            v = int(g[1:], 8)
        except ValueError:
            return g
        return bytes([v]) if v < 256 else g
    return re.sub(rb"\\([0-9]{3}|\\)", rep, tok)


def _has_unclean_name(txt, only_empty=False):
    """a line with a file token (a zero-length one if only_empty) whose stream name + "/" + file name (as the manifest
    package unescapes them) is changed by path.Clean"""
    for line in txt.split(b"\n"):
        toks = line.split(b" ")
        sname = go_unescape(toks[0])
        for t in toks[1:]:
            parts = t.split(b":", 2)
            if len(parts) == 3 and parts[0].isdigit() and parts[1].isdigit():
                if only_empty and int(parts[1]) != 0:
                    continue
                p = sname + b"/" + go_unescape(parts[2])
                comps = p.split(b"/")
                if comps[0] != b"." or any(c in (b"", b".", b"..") for c in comps[1:]):
                    return True
    return False


# ----------------------------------------------------------------------------- generator

HEXD = "0123456789abcdef"
NAME_ATOMS = [b"f", b"g", b"foo", b"bar.txt", b"a b", b"a:b", b"c:", b"a\\b", b"a\\040b", b"\\134", b"\\\\", b"x\\1",
              b"\\0", b"caf\xc3\xa9", b"\xe6\x97\xa5\xe6\x9c\xac", b"\xff\xfe", b"tab\there", b"nl\nx", b"\x01", b"...",
              b".x", b"x.", b"~", b"%20", b"a+b", b"0:0:z", b"d41d8cd98f00b204e9800998ecf8427e+0", b"\\056", b"  ", b"q"]
DIR_ATOMS = [b"d", b"e", b"dir", b"a b", b"s:t", b"b\\s", b"\\040", b"\xc3\xa9", b"sub.d", b"x\x02y"]


def esc_name(rng, name, colon=False):
    """writer: a valid escaped form of `name` (mandatory escapes plus a few gratuitous ones; now and then every
    non-ASCII byte is written as an escape, as other writers do)"""
    out = bytearray()
    high = rng.random() < 0.15
    for c in name:
        if c <= 0x20 or c == 0x5c or c == 0x7f or (c == 0x3a and colon) or (high and c >= 0x80) or rng.random() < 0.03:
            out += b"\\%03o" % c
        else:
            out.append(c)
    return bytes(out)


def gen_hash(rng):
    return "".join(rng.choice(HEXD) for _ in range(32))


def gen_hint(rng, no_sig=False):
    """a locator hint; no_sig: never a +A permission signature (remote-signed / unsigned collections)"""
    r = rng.random() if not no_sig else rng.uniform(0.5, 1.0)
    if r < 0.5:
        return "+A" + "".join(rng.choice(HEXD) for _ in range(40)) + "@" + "".join(rng.choice(HEXD) for _ in range(8))
    if r < 0.7:
        return "+Rzzzzz-" + "".join(rng.choice(HEXD) for _ in range(40)) + "@" + "".join(rng.choice(HEXD) for _ in range(8))
    if r < 0.85:
        return "+Z"
    return "+K@" + "".join(rng.choice("abcdz019") for _ in range(5))


def gen_valid(rng, avoid_conflict=True, big=False):
    """-> manifest text (bytes). Grammar-directed; see RULE. big: streams of 6-12 blocks with sizes up to 70 and up to
    12 file tokens (files spanning many blocks)."""
    npool = rng.randint(1, 6)
    pool = []
    for _ in range(npool):
        r = rng.random()
        if r < 0.2:
            pool.append((EMPTY, 0))
        elif r < 0.25:
            pool.append((gen_hash(rng), 0))
        else:
            pool.append((gen_hash(rng), rng.choice([1, 1, 2, 3, 5, 8, 13, 20, rng.randint(1, 20)]) if not big
                         else rng.choice([1, 7, 20, 33, 64, 70, rng.randint(1, 70)])))
    no_sig = rng.random() < 0.25          # a manifest none of whose locators carries a +A signature
    nstreams = rng.randint(1, 4)
    dirs = [b"."]
    for _ in range(rng.randint(0, 3)):
        base = rng.choice(dirs)
        dirs.append(base + b"/" + rng.choice(DIR_ATOMS))
    if len(dirs) > 1 and rng.random() < 0.35:
        # a look-alike sibling: the name of an existing directory plus more characters (string prefix, not path prefix)
        dirs.append(rng.choice(dirs[1:]) + rng.choice([b"b", b".d", b" x", b"0", b"\\", b"\xc3\xa9", b":"]))
    fnames = [rng.choice(NAME_ATOMS) for _ in range(rng.randint(1, 4))]
    if rng.random() < 0.3:
        fnames.append(rng.choice(DIR_ATOMS) + b"/" + rng.choice(NAME_ATOMS))
    fnames = [n for n in fnames if n not in (b".", b"..")]
    lines = []
    used_files, used_dirs = set(), set()
    for _ in range(nstreams):
        sname = rng.choice(dirs)
        nb = rng.randint(6, 12) if big else rng.randint(1, 5)
        blocks = [rng.choice(pool) for _ in range(nb)]
        if nb >= 3 and rng.random() < 0.4:
            blocks[rng.randint(1, nb - 2)] = (EMPTY, 0)          # interior zero-length block
        offs = [0]
        for _, s in blocks:
            offs.append(offs[-1] + s)
        total = offs[-1]
        toks = [esc_name(rng, sname)]
        for h, s in blocks:
            loc = f"{h}+{s}"
            for _ in range(rng.choice([0, 0, 0, 1, 1, 2])):
                loc += gen_hint(rng, no_sig)
            toks.append(loc.encode())
        nf = rng.randint(4, 12) if big else rng.randint(1, 6)
        ftoks = []
        for _ in range(nf):
            name = rng.choice(fnames)
            path = sname + b"/" + name
            if avoid_conflict:
                comps = path.split(b"/")
                pref = {b"/".join(comps[:k]) for k in range(1, len(comps))}
                if path in used_dirs or (pref & used_files):
                    continue
                used_files.add(path)
                used_dirs |= pref

            def pick():
                r = rng.random()
                b = rng.choice(offs)
                if r < 0.45:
                    v = b
                elif r < 0.6:
                    v = b - 1
                elif r < 0.75:
                    v = b + 1
                else:
                    v = rng.randint(0, total)
                return min(max(v, 0), total)
            a, b = pick(), pick()
            if a > b:
                a, b = b, a
            if rng.random() < 0.15:
                b = a                                              # zero-length file token
            ftoks.append(b"%d:%d:%s" % (a, b - a, esc_name(rng, name, colon=rng.random() < 0.3)))
            if rng.random() < 0.2:                                 # repeated token for the same file
                a2, b2 = pick(), pick()
                if a2 > b2:
                    a2, b2 = b2, a2
                ftoks.append(b"%d:%d:%s" % (a2, b2 - a2, esc_name(rng, name)))
        if not ftoks:
            ftoks.append(b"0:0:" + esc_name(rng, b"zz%d" % len(lines)))
            used_files.add(sname + b"/zz%d" % len(lines))
        lines.append(b" ".join(toks + ftoks))
    return b"".join(l + b"\n" for l in lines)


def gen_conflict(rng):
    """a grammar-valid manifest in which one path is both a file and a directory"""
    txt = gen_valid(rng)
    ref = ref_parse(txt)
    if not ref:
        return txt
    name, blocks, files = rng.choice(ref)
    fname = rng.choice(files)[2]
    p = name + b"/" + fname                       # an existing file path, now also used as a stream name
    line = esc_name(rng, p) + b" " + blocks[0][0] + b" 0:0:" + esc_name(rng, rng.choice([b"x", b"y z"]))
    lines = txt[:-1].split(b"\n")
    lines.insert(rng.randrange(len(lines) + 1), line)
    return b"".join(l + b"\n" for l in lines)


def gen_huge(rng):
    """grammar-valid manifest whose block sizes are near 2^63: stream lengths reach and pass 2^64"""
    nb = rng.randint(2, 5)
    sizes = [rng.choice([2**63 - 1, 2**63 - 1, 2**63 - 2, 2**62, 2**62 + 1, 0, 2, 3, 7]) for _ in range(nb)]
    toks = [b"."] + [("%s+%d" % (EMPTY if sz == 0 else gen_hash(rng), sz)).encode() for sz in sizes]
    total = sum(sizes) % 2**64
    for _ in range(rng.randint(1, 4)):
        a = rng.choice([0, 0, 1, 2, 3, max(0, total - 1)])
        ln = rng.choice([0, 1, 2, 3])
        toks.append(b"%d:%d:f%d" % (min(a, total), min(ln, max(0, total - min(a, total))), rng.randint(0, 2)))
    return b" ".join(toks) + b"\n"


BIGNUMS = [2**31 - 1, 2**31, 2**32, 2**63 - 1, 2**63, 2**64 - 2, 2**64 - 1, 2**64, 10**30]


def mutate(rng, txt):
    """single-token mutation of a valid manifest"""
    lines = txt[:-1].split(b"\n")
    li = rng.randrange(len(lines))
    toks = lines[li].split(b" ")
    ti = rng.randrange(len(toks))
    t = toks[ti]
    kind = rng.randrange(16)
    if kind == 0:
        del toks[ti]
    elif kind == 1:
        toks.insert(ti, t)
    elif kind == 2 and len(toks) > 1:
        tj = rng.randrange(len(toks))
        toks[ti], toks[tj] = toks[tj], toks[ti]
    elif kind == 3:
        toks[ti] = b""
    elif kind in (4, 5, 6):
        # numeric mutation inside the token
        nums = list(re.finditer(rb"[0-9]+", t))
        if nums:
            m = rng.choice(nums[:3]) if kind != 6 else nums[0]
            r = rng.random()
            if r < 0.35:
                v = str(max(0, int(m.group(0)) + rng.choice([-1, 1, 2]))).encode()
            elif r < 0.8:
                v = str(rng.choice(BIGNUMS) - (int(m.group(0)) if rng.random() < 0.3 else rng.choice([0, 0, 1, 2]))).encode()
            else:
                v = rng.choice([b"-1", b"+1", b"", b"0x10", b"1_0", b" 1", b"1e3", b"007"])
            toks[ti] = t[:m.start()] + v + t[m.end():]
        else:
            toks[ti] = t + b"+"
    elif kind == 7:
        toks[ti] = rng.choice([b".", b"..", b"./", b"/", b"", b"foo", b"./a//b", b"./a/./b", b"./a/../b", b"./.."])
    elif kind == 8:
        pre = t.rsplit(b":", 1)[0] + b":" if b":" in t else b"0:0:"
        toks[ti] = pre + rng.choice([b".", b"..", b"a//b", b"/a", b"a/", b"", b"a/./b", b"a/../b", b"../x", b"\\056",
                                     b"\\056\\056", b"a\\057\\057b", b"x\\", b"x\\\\y", b"x\\400", b"x\\08", b"x\\189"])
    elif kind == 9 and rng.random() < 0.5 and b":" in t and ti > 0:
        # an extra zero-length token whose name is a non-canonical spelling of this token's name
        nm = t.split(b":", 2)[2] if t.count(b":") >= 2 else b"x"
        alias = rng.choice([b"./" + nm, nm + b"/.", b"zz/../" + nm, nm + b"/", b"/" + nm, b".//" + nm])
        toks.insert(rng.randint(ti, len(toks)), b"%d:0:%s" % (rng.choice([0, 0, 1]), alias))
    elif kind == 9:
        pos = rng.randrange(len(t) + 1)
        toks[ti] = t[:pos] + rng.choice([b"\t", b"\r", b"\x00", b":", b"+", b"\\", b"\x7f", b"G", b"A"]) + t[pos:]
    elif kind == 10 and len(t) > 0:
        pos = rng.randrange(len(t))
        toks[ti] = t[:pos] + t[pos + 1:]
    elif kind == 11:
        toks[ti] = t.upper() if rng.random() < 0.5 else t[:rng.randrange(len(t) + 1)]
    elif kind == 12:
        lines[li] = b" ".join(toks)
        out = b"".join(l + b"\n" for l in lines)
        return out[:-1] if rng.random() < 0.5 else out + rng.choice([b"\n", b" ", b".", b"\r\n"])
    elif kind == 13:
        toks[ti] = t + rng.choice([b"\r", b" ", b"+", b":", b"+Afoo", b"+a", b"+Z*"])
    elif kind == 14:
        toks = [x for x in toks if b":" in x or x == toks[0]] if rng.random() < 0.5 else [x for x in toks if b":" not in x]
    else:
        toks[ti] = rng.choice([b"0:0", b"0", b":", b"::", b"0::f", b":0:f", b"0:-0:f", b"+0:1:f", b"1:1", b"a:b:c",
                                EMPTY.encode(), EMPTY.encode() + b"+", EMPTY.encode() + b"+0+", b"+3", b"x+3", b"x+y"])
    lines[li] = b" ".join(toks)
    return b"".join(l + b"\n" for l in lines)


ALPHA = (b"0123456789" * 3 + b"::::++++    \n\n\n..//\\\\abcdef" + bytes([0, 9, 13, 127, 128, 255]) + b"AZz@_-")


def gen_garbage(rng):
    r = rng.random()
    if r < 0.3:
        return bytes(rng.randrange(256) for _ in range(rng.randint(0, 40)))
    if r < 0.7:
        return bytes(rng.choice(ALPHA) for _ in range(rng.randint(0, 60)))
    # token soup
    pieces = [b".", b"./a", EMPTY.encode() + b"+0", ("a" * 32 + "+3").encode(), b"0:3:f", b"0:0:f", b"3:0:g", b"1:2:f",
              b"", b" ", b"\n", b"\n", b":", b"+", b"0", b"\\040", b"\\", b"x"]
    out = b""
    for _ in range(rng.randint(1, 10)):
        out += rng.choice(pieces) + rng.choice([b" ", b" ", b"\n", b""])
    return out


def gen_num_strings(rng, nrandom):
    """numerals for strconv: every boundary of the integer types the codecs use, signed / zero-padded, and malformed"""
    out = []
    for base in (2**15, 2**31, 2**32, 2**63, 2**64, 10**19, 10**20):
        for d in (-2, -1, 0, 1, 2):
            for sign in (b"", b"+", b"-"):
                for pad in (b"", b"00"):
                    out.append(sign + pad + str(base + d).encode())
    out += [b"", b"+", b"-", b"0", b"-0", b"+0", b"00", b"1_0", b"0x10", b"0X10", b"0b1", b"0o7", b" 1", b"1 ", b"1\n",
            b"+-1", b"--1", b"++1", b"1e3", b"1.0", b"\xef\xbc\x91", b"\xd9\xa1", b"1\x00", b"Inf", b"nan", b"9" * 40,
            b"0" * 40 + b"7", b"f" * 16, b"f" * 17, b"F" * 16, b"1" + b"0" * 16, b"0" * 20 + b"f" * 16, b"g", b"fg", b"0xff",
            b"ff_ff", b"-ff", b"+ff", b"aBcDeF", b"7fffffffffffffff", b"8000000000000000", b"ffffffffffffffff"]
    for _ in range(nrandom):
        r = rng.random()
        if r < 0.4:
            n = rng.choice([b"", b"", b"+", b"-"]) + bytes(rng.choice(b"0123456789") for _ in range(rng.randint(1, 25)))
        elif r < 0.7:
            n = bytes(rng.choice(b"0123456789abcdefABCDEF") for _ in range(rng.randint(1, 18)))
        else:
            n = bytearray(str(rng.choice(BIGNUMS) + rng.randint(-3, 3)).encode())
            n.insert(rng.randrange(len(n) + 1), rng.choice(b"+-_ xX.eE\t\x00\xff:/"))
            n = bytes(n)
        out.append(n)
    return out


def gen_clean_strings(rng, maxlen, nrandom):
    """every string over {'.', '/', 'a'} up to maxlen (dot, dotdot, multiple slashes, rooted, trailing slash in every
    combination), plus random longer strings over a wider alphabet"""
    out, layer = [b""], [b""]
    for _ in range(maxlen):
        layer = [p + c for p in layer for c in (b".", b"/", b"a")]
        out += layer
    for _ in range(nrandom):
        out.append(b"".join(rng.choice([b".", b"..", b"/", b"/", b"//", b"a", b"b c", b"\\", b"...", b"x.", b".x",
                                        b"\x00", bytes([rng.randrange(256)])]) for _ in range(rng.randint(3, 14))))
    return out


def gen_loc_strings(rng, n):
    """locators for blockdigest: valid (with hints, sizes up to and beyond 2^63), upper/mixed-case digests, single
    mutations (length of the digest, non-hex character, missing/empty/signed size, malformed hints), bare digests"""
    out = []
    for _ in range(n):
        h = gen_hash(rng)
        size = rng.choice([0, 1, 3, 20, 67108864, 2**31 - 1, 2**31, 2**63 - 1, 2**63, 2**64, rng.randint(0, 10**6)])
        loc = h + "+" + (rng.choice(["", "00"]) if rng.random() < 0.1 else "") + str(size)
        for _ in range(rng.choice([0, 0, 1, 2, 3])):
            loc += gen_hint(rng)
        b = loc.encode()
        r = rng.random()
        if r < 0.3:
            pass
        elif r < 0.45:
            b = (h.upper() if rng.random() < 0.5 else "".join(c.upper() if rng.random() < 0.5 else c for c in h)).encode() \
                + b[32:]
        elif r < 0.55:
            b = (h if rng.random() < 0.5 else h.upper()).encode()      # bare digest: FromString's domain
            if rng.random() < 0.5:
                k = rng.randrange(32)
                b = rng.choice([b[:k] + b[k + 1:], b[:k] + b"0" + b[k:], b[:k] + rng.choice([b"g", b"G", b"+", b" ", b"x"]) + b[k + 1:]])
        else:
            k = rng.randrange(len(b) + 1)
            b = rng.choice([
                b[:k] + b[k + 1:], b[:k] + bytes([rng.choice(b"gG+ :-_@.*zZ09\n\x00\xff")]) + b[k:],
                b[:32] + b[33:], b[:33], b[:33] + b"+Z", b[:33] + b"-3", b[:33] + b"+3", b + b"+", b + b"+a", b + b"+1x",
                b + b"+A.b", b + b"+Zq*", b + b"\n", b" " + b, b + b" ", b[:31] + b"+" + b[32:], b"0" + b, b[1:],
                b + b"+Abc-DEF_0@z"])
        out.append(b)
    return out


def gen_rr_case(rng):
    """a sequence of replace_range writes on one segment list (as a file being written piecewise): starts on, one
    before/after and inside existing segment boundaries, lengths ending on/inside/beyond segments and beyond the end
    of the file, appends that continue the last block (the 'extend last segment' path), zero-length writes; now and
    then a write beyond the end (model fidelity only)"""
    ws, bounds, length, last = [], [0], 0, None
    for _ in range(rng.randint(1, 9)):
        r = rng.random()
        if r < 0.3 or length == 0:
            a = length
        elif r < 0.75:
            a = min(max(rng.choice(bounds) + rng.choice([-1, 0, 0, 1]), 0), length)
        elif r < 0.97:
            a = rng.randint(0, length)
        else:
            a = length + rng.randint(1, 3)
        r = rng.random()
        if r < 0.1:
            b = 0
        elif r < 0.5:
            e = rng.choice(bounds + [length]) + rng.choice([-1, 0, 0, 1])
            b = e - a if e > a else rng.randint(1, 6)
        else:
            b = rng.randint(1, 8)
        k = rng.randint(0, 3)
        o = rng.choice([0, 0, 1, 5, rng.randint(0, 30)])
        if last is not None and a == length and rng.random() < 0.5:
            k, o = last[0], last[1] + (0 if rng.random() < 0.8 else 1)       # continue (or nearly) the last block
        ws.append(f"{a},{b},{k},{o}")
        if b > 0 and a <= length:
            bounds += [a, a + b]
            if a + b >= length:
                last = (k, o + b) if a + b > length or a == length else last
            length = max(length, a + b)
            if a + b == length:
                last = (k, o + b)
    r = rng.random()
    s = rng.choice(bounds) if r < 0.6 else rng.randint(0, length)
    s = min(s, length)
    n = rng.randint(0, length - s) if rng.random() < 0.8 else length - s
    return f"p.rr {';'.join(ws)} {s} {n}"


def ext_pairs(rng, ref, tier):
    files = list(ref["files"])
    dirs = sorted({p.rsplit(b"/", 1)[0] for p in files} | dirs_of(files) | {b"."})
    srcs = dirs + files
    # alternative spellings of a source path
    if len(dirs) > 1:
        d = rng.choice(dirs[1:])
        srcs += [d[2:], d + b"/", b"/" + d[2:]]
    srcs.append(b"./nonexistent")
    rels = [b".", b"./new", b"./new/", b"./new/name", rng.choice([b"./n w", b"./n\\134x/", b"./a:b", b"new", b"./\xc3\xa9/"])]
    pairs = [(s, r) for s in srcs for r in rels]
    cap = 24 if tier == "quick" else 40
    if len(pairs) > cap:
        # boundary class kept in any case: a source that is a string prefix of another path without being its parent
        allp = dirs + files
        edge = [s for s in dirs + files if s != b"." and
                any(q != s and q.startswith(s) and not q.startswith(s + b"/") for q in allp)]
        keep = [(s, r) for s in edge for r in rels[:3]]
        rest = [pr for pr in pairs if pr not in keep]
        pairs = keep + rng.sample(rest, max(0, cap - len(keep)))
    return pairs


def cases_for_valid(rng, txt, tier, out):
    h = hx(txt)
    out += [f"m.seg {h}", f"a.fs {h}", f"p.seg {h}", f"a.pdh {h}"]
    ref = ref_of(h)
    if ref is None:
        return
    paths = list(ref["files"])
    for p in (paths if len(paths) <= 4 else rng.sample(paths, 4)):
        out.append(f"m.iter {h} {hx(p)}")
    for s, r in ext_pairs(rng, ref, tier):
        out.append(f"m.ext {h} {hx(s)} {hx(r)}")


def cases_for_malformed(txt, out):
    h = hx(txt)
    out += [f"m.seg {h}", f"m.ext {h} 2e 2e", f"a.fs {h}", f"a.pdh {h}"]


def generate(rng, tier):
    quick = tier == "quick"
    nvalid = 220 if quick else 2500
    nmut = 500 if quick else 10000
    ngarb = 200 if quick else 4000
    nfb = 400 if quick else 12000
    nesc = 150 if quick else 4000
    nconf = 15 if quick else 300
    out = []
    valids = []
    for i in range(nvalid):
        txt = gen_valid(rng, avoid_conflict=rng.random() < 0.93)
        valids.append(txt)
        cases_for_valid(rng, txt, tier, out)
    for i in range(10 if quick else 400):
        cases_for_valid(rng, gen_valid(rng, big=True), tier, out)
    for i in range(nconf):
        h = hx(gen_conflict(rng))
        out += [f"m.seg {h}", f"a.fs {h}", f"a.pdh {h}", f"m.ext {h} 2e 2e"]
    for i in range(30 if quick else 600):
        h = hx(gen_huge(rng))
        # (no m.ext here: normalizedText prints stream offsets as int64, which the model does not wrap)
        out += [f"m.seg {h}", f"a.fs {h}", f"a.pdh {h}"]
    out += ["m.seg -", "a.fs -", "a.pdh -", "m.ext - 2e 2e", "p.seg -"]
    for _ in range(nmut):
        cases_for_malformed(mutate(rng, rng.choice(valids)), out)
    for _ in range(ngarb):
        cases_for_malformed(gen_garbage(rng), out)
    for _ in range(nfb):
        n = rng.randint(1, 7)
        sizes = [rng.choice([0, 0, 1, 2, 3, 5, 20]) for _ in range(n)]
        offs = [0]
        for s in sizes:
            offs.append(offs[-1] + s)
        start = min(max(rng.choice(offs) + rng.choice([-1, 0, 0, 1]), 0), offs[-1] + 1)
        r = rng.random()
        if r < 0.8:
            out.append(f"m.fb {','.join(map(str, offs))} {start}")
            out.append(f"p.fb {','.join(map(str, sizes))} {start}")
            size = rng.randint(0, max(0, offs[-1] - start) + 1)
            out.append(f"p.lr {','.join(map(str, sizes))} {start} {size}")
        elif r < 0.9:
            base = rng.randint(1, 5)                      # offsets not starting at 0
            out.append(f"m.fb {','.join(str(o + base) for o in offs)} {start}")
        elif r < 0.97:
            sh = offs[:]
            rng.shuffle(sh)                               # not monotone: model fidelity only
            out.append(f"m.fb {','.join(map(str, sh))} {start}")
        else:
            out.append(f"m.fb {rng.randint(0, 5)} {start}")
            out.append(f"p.fb - {start}")
            out.append(f"p.lr - {start} {rng.randint(0, 3)}")
    for _ in range(300 if quick else 8000):
        n = b"".join(rng.choice([b".", b"..", b"/", b"/", b"a", b"b c", b"\\", b"./", b"//", b"x.", b".x", b"",
                                 bytes([rng.randrange(256)])]) for _ in range(rng.randint(0, 9)))
        out.append(f"m.fix {hx(n)}")
    for _ in range(400 if quick else 12000):
        out.append(gen_rr_case(rng))
    out.append("p.rr - 0 0")
    for n in gen_clean_strings(rng, 6 if quick else 8, 200 if quick else 4000):
        out.append(f"m.clean {hx(n)}")
    for n in gen_num_strings(rng, 150 if quick else 6000):
        out.append(f"m.num {hx(n)}")
    for n in gen_loc_strings(rng, 300 if quick else 6000):
        out.append(f"m.loc {hx(n)}")
    for _ in range(nesc):
        r = rng.random()
        if r < 0.4:
            n = bytes(rng.choice(b"\\\\\\0123456789 :a\n\xff") for _ in range(rng.randint(0, 12)))
        elif r < 0.7:
            n = b"".join(rng.choice(NAME_ATOMS + DIR_ATOMS) for _ in range(rng.randint(1, 3)))
        elif r < 0.85:
            n = bytes(rng.randrange(256) for _ in range(rng.randint(0, 16)))
        else:
            # an escaped token inside the escape rule: \ooo for arbitrary byte values 000-377 between plain bytes
            n = b"".join((b"\\%03o" % rng.randrange(256)) if rng.random() < 0.6 else bytes([rng.choice(b"abz09.~")])
                         for _ in range(rng.randint(1, 8)))
        out += [f"m.esc {hx(n)}", f"a.esc {hx(n)}", f"p.esc {hx(n)}"]
    return out


# ----------------------------------------------------------------------------- evidence helpers

def nontrivial_key(case, impl):
    f = case.split(" ")
    if f[0] in ("m.seg", "a.fs", "p.seg", "m.ext", "m.iter", "a.pdh"):
        ref = ref_of(f[1])
        if ref is None:
            return case if impl == "err" else None
        multi = any(len(s) >= 2 for s in ref["files"].values())
        zero = any(sz == 0 for _, bl, _ in ref["streams"] for _, sz in bl)
        esc = b"\\" in unhex(f[1])
        return case if (multi or zero or esc) else None
    if f[0] in ("m.fb", "p.fb", "p.lr", "p.rr"):
        return case if "," in f[1] else None
    return case if len(f[1]) > 2 else None


def describe(cases, impl):
    ops, classes = {}, {"valid": 0, "valid-tree-conflict": 0, "malformed-rejected": 0, "malformed-accepted": 0}
    feats = {"interior_zero_block": 0, "zero_length_token": 0, "repeated_file": 0, "multi_block_file": 0,
             "backslash_in_text": 0, "non_ascii": 0, "hints": 0}
    seen = set()
    for c, r in zip(cases, impl):
        f = c.split(" ")
        ops[f[0]] = ops.get(f[0], 0) + 1
        if f[0] in ("m.seg", "a.fs") and r is not None:
            ref = ref_of(f[1])
            if ref is None:
                classes["malformed-rejected" if r == "err" else "malformed-accepted"] += 1
            else:
                classes["valid-tree-conflict" if ref["conflict"] else "valid"] += 1
                if f[1] in seen:
                    continue
                seen.add(f[1])
                txt = unhex(f[1])
                for _, bl, fts in ref["streams"]:
                    if any(s == 0 for _, s in bl[1:-1]):
                        feats["interior_zero_block"] += 1
                    if any(s == 0 for _, s, _ in fts):
                        feats["zero_length_token"] += 1
                    if len({n for _, _, n in fts}) < len(fts):
                        feats["repeated_file"] += 1
                if any(len(s) >= 2 for s in ref["files"].values()):
                    feats["multi_block_file"] += 1
                feats["backslash_in_text"] += b"\\" in txt
                feats["non_ascii"] += any(ch >= 0x80 for ch in txt)
                feats["hints"] += bool(re.search(rb"\+[A-Z]", txt))
    return {"ops": ops, "manifest_classes(m.seg+a.fs cases)": classes, "valid_manifest_features": feats}


def neighbours(case, rng):
    f = case.split(" ")
    out = []
    if f[0] in ("m.seg", "m.ext", "a.fs", "a.pdh", "p.seg", "m.iter"):
        txt = unhex(f[1])
        if ref_of(f[1]) is not None and txt:
            for _ in range(6):
                t2 = gen_valid(rng)
                cases_for_valid(rng, t2, "quick", out)
            for _ in range(6):
                cases_for_malformed(mutate(rng, txt), out)
        else:
            for _ in range(10):
                cases_for_malformed(gen_garbage(rng), out)
                cases_for_malformed(mutate(rng, gen_valid(rng)), out)
    elif f[0] == "p.rr":
        out += [gen_rr_case(rng) for _ in range(60)]
    elif f[0] in ("m.fb", "p.fb", "p.lr"):
        for _ in range(20):
            n = rng.randint(1, 6)
            sizes = [rng.choice([0, 0, 1, 2, 3, 5]) for _ in range(n)]
            offs = [0]
            for s in sizes:
                offs.append(offs[-1] + s)
            for start in range(0, offs[-1] + 2):
                out.append(f"m.fb {','.join(map(str, offs))} {start}")
                out.append(f"p.fb {','.join(map(str, sizes))} {start}")
                out.append(f"p.lr {','.join(map(str, sizes))} {start} {max(0, offs[-1] - start)}")
    else:
        for _ in range(30):
            n = bytes(rng.choice(b"\\\\0123456789 :a") for _ in range(rng.randint(0, 10)))
            out += [f"m.esc {hx(n)}", f"a.esc {hx(n)}", f"p.esc {hx(n)}"]
    return out
