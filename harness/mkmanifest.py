#!/usr/bin/env python3
"""Assemble /verif/MANIFEST.json from harness/props/Cxx.manifest.json snippets.
A property is claimed iff its plugin (Cxx.py) and its snippet both exist; every other property of
properties.jsonl is listed under not_applicable with the reason from harness/props/not_applicable.json
(or 'not yet built')."""
import json, os, sys
V = os.path.dirname(os.path.dirname(os.path.abspath(__file__)))
P = os.path.join(V, "harness", "props")
ids = [json.loads(l)["id"] for l in open(os.path.join(V, "properties.jsonl")) if l.strip()]
na_reasons = {}
if os.path.exists(os.path.join(P, "not_applicable.json")):
    na_reasons = json.load(open(os.path.join(P, "not_applicable.json")))
checks, na = [], []
for pid in ids:
    snip = os.path.join(P, f"{pid}.manifest.json")
    if os.path.exists(snip) and os.path.exists(os.path.join(P, f"{pid}.py")):
        s = json.load(open(snip))
        checks.append({
            "property_id": pid,
            "quick_cmd": f"./check {pid} --tier quick",
            "thorough_cmd": f"./check {pid} --tier thorough",
            "evidence_file": f"/verif/evidence/{pid}.json",
            "replay_cmd_template": f"./check {pid} --replay {{path}}",
            "engine": "lean4-proof+correspondence",
            "level_claimed": {"category": "proof", "text": s["level_text"], "design_ref": s.get("design_ref", f"DESIGN.md section 7 {pid}")},
            "level_note": s["level_note"],
            "technique": s.get("technique", "Lean 4 machine-checked proof over an executable model + differential correspondence check against the Go implementation"),
        })
    else:
        na.append({"property_id": pid, "reason": na_reasons.get(pid, "not claimed yet: the Lean model, theorems and correspondence driver for this property are not built in this revision of /verif (see DESIGN.md section 10 build order)")})
m = {
    "version": 1,
    "setup_cmd": "./setup.sh",
    "hooks": {
        "guard": "go test -overlay (driver and instrumentation files live under /verif/harness/overlay and are mapped into the package directories at build time; no file in /repo carries hook code, so the guard is 'overlay passed or not')",
        "enable": "go test -c -vet=off -overlay /verif/build/<id>/overlay.json -o /verif/build/<id>/<driver>.test ./<package>   (run from /repo with GOFLAGS=-mod=mod GOPROXY=off)",
        "baseline_off_cmd": json.load(open("/root/.vp/BASELINE.json"))["cmd"] if os.path.exists("/root/.vp/BASELINE.json") else "",
        "source_commits": json.load(open(os.path.join(V, "harness", "source_commits.json"))) if os.path.exists(os.path.join(V, "harness", "source_commits.json")) else [],
        "add_only": True,
    },
    "engines": [{"name": "lean4-proof+correspondence", "path": "/verif/harness/check.py",
                 "serves_properties": [c["property_id"] for c in checks],
                 "kind_free_text": "Lean 4 theorems about hand-written executable models (lean/ArvVerif), tied to /repo on every run by a go/ast fact extractor (translator/) whose output must satisfy rfl/decide tie theorems, and by a differential correspondence check (model executable vs. real Go/Python code on generated cases) with a property oracle and a failing-input search"}],
    "checks": checks,
    "not_applicable": na,
    "notes": "Every check honours VERIF_SEED and VERIF_TIER. Known findings are listed in /verif/known_findings.json. See DESIGN.md and CONVENTIONS.md.",
}
json.dump(m, open(os.path.join(V, "MANIFEST.json"), "w"), indent=1)
# known findings: assembled from harness/props/*.findings.json (one snippet file per property)
findings = []
for fn in sorted(os.listdir(P)):
    if fn.endswith(".findings.json"):
        findings += json.load(open(os.path.join(P, fn)))
json.dump({"comment": "status 'known' = genuine defect of the pinned tree recorded, not repaired: the owning check prints KNOWN-FINDING for it and exits 0, and still reports any other violation. status 'fixed' = repaired by the named fix: commit in /repo; suppresses nothing. Assembled from harness/props/*.findings.json by harness/mkmanifest.py; never written at check run time.",
           "findings": findings}, open(os.path.join(V, "known_findings.json"), "w"), indent=1)
print(f"MANIFEST.json: {len(checks)} checks, {len(na)} not_applicable")
