#!/usr/bin/env python3
"""Regenerate DESIGN.md section 14 (per-property results as built) from notes/Cxx.md.
Everything after the marker line is replaced; sections 0-13 are hand-written."""
import os, re
V = os.path.dirname(os.path.dirname(os.path.abspath(__file__)))
MARK = "## 14. Per-property results as built (generated from notes/Cxx.md by harness/mkdesign.py)"
p = os.path.join(V, "DESIGN.md")
s = open(p).read()
if MARK in s:
    s = s[:s.index(MARK)].rstrip() + "\n"
    s = re.sub(r"\n-{80}\n*$", "\n", s)
out = [s.rstrip(), "", "-" * 80, "", MARK, "",
       "Each subsection is the builder's own record for that property: what is modelled, the theorems, "
       "hypotheses, what is trusted, tie facts, generator coverage, findings, mutation self-tests and the "
       "evaluation against independently seeded changes (kept under `seeded/`).", ""]
# findings register (from known_findings.json)
import json
kf = os.path.join(V, "known_findings.json")
if os.path.exists(kf):
    fs = json.load(open(kf)).get("findings", [])
    out += ["### 14.00 Findings register (from `known_findings.json`)", "",
            "Genuine defects of the pinned tree found while building the checks. `fixed` = repaired by the named "
            "`fix:` commit in `/repo` (the models describe the repaired code; the old witnesses run first in the "
            "property's corpus, so the check reports them again if they return). `known` = recorded, not repaired: "
            "the owning check prints `KNOWN-FINDING` for exactly that witness shape and exits 0; any other violation "
            "of the same property is still reported.", "",
            "| id | property | status | fix commit | what |", "|---|---|---|---|---|"]
    for f in fs:
        what = " ".join(str(f.get("what", "")).split()).replace("|", "\\|")
        out.append(f"| {f['id']} | {f['property']} | {f['status']} | {f.get('commit', '') or '—'} | {what} |")
    out.append("")
# seeded changes register (from seeded/*/meta.json + results.json)
sd = os.path.join(V, "seeded")
if os.path.isdir(sd):
    out += ["### 14.01 Which check catches which seeded change (from `seeded/*/meta.json`)", "",
            "Changes to curoverse/arvados made by fresh sub-agents that saw only the property text and a scratch "
            "worktree (nothing from `/verif`); each compiles, passes the existing tests, and comes with a "
            "demonstration that fails with the change and passes without it (re-confirmed by us). "
            "`verdict` is what the owning check printed when run against the change in a scratch worktree "
            "(`harness/seedtest.py`); `input` = VIOLATION with a concrete failing input as replay, "
            "`no-input` = VIOLATION … no-failing-input-found (tie/correspondence break only). Details, and what "
            "was strengthened because of a seed, are in each property's subsection below.", "",
            "| seed | property | breaks / needs | verdict |", "|---|---|---|---|"]
    for d in sorted(os.listdir(sd)):
        mp = os.path.join(sd, d, "meta.json")
        if not os.path.exists(mp):
            continue
        try:
            m = json.load(open(mp))
        except Exception:
            continue
        res = m.get("check_results") or {}
        rp = os.path.join(sd, d, "results.json")
        if os.path.exists(rp):
            try:
                res = json.load(open(rp))
            except Exception:
                pass
        verdicts = []
        for pid, r in sorted(res.items()):
            if not isinstance(r, dict):
                continue
            v = " ".join(r.get("verdict", []))
            if "VIOLATION" in v:
                verdicts.append(f"{pid}: " + ("no-input" if "no-failing-input-found" in v else "input"))
            else:
                verdicts.append(f"{pid}: exit {r.get('exit')}")
        what = " ".join((str(m.get("breaks", "")) + " — needs: " + str(m.get("needs", ""))).split()).replace("|", "\\|")
        out.append(f"| {d} | {m.get('property', d[:3])} | {what[:400]} | {'; '.join(verdicts) or 'see notes'} |")
    out.append("")
nd = os.path.join(V, "notes")
for fn in sorted(os.listdir(nd)) if os.path.isdir(nd) else []:
    if not re.match(r"C\d\d\.md$", fn):
        continue
    body = open(os.path.join(nd, fn)).read().strip()
    # demote headings by two levels so they nest under section 14
    body = re.sub(r"^(#+) ", lambda m: "#" * min(6, len(m.group(1)) + 2) + " ", body, flags=re.M)
    out += [f"### 14.{fn[1:3]} {fn[:-3]}", "", body, ""]
open(p, "w").write("\n".join(out) + "\n")
print("DESIGN.md section 14 regenerated from", len([f for f in os.listdir(nd) if re.match(r'C\d\d\.md$', f)]), "notes files")
