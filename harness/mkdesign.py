#!/usr/bin/env python3
"""Regenerate DESIGN.md section 14 (per-property results as built) from notes/Cxx.md.
Everything after the marker line is replaced; sections 0-13 are hand-written."""
import os, re
V = os.path.dirname(os.path.dirname(os.path.abspath(__file__)))
MARK = "## 14. Per-property results as built (generated from notes/Cxx.md by harness/mkdesign.py)"
p = os.path.join(V, "DESIGN.md")
s = open(p).read()
if MARK in s:
    s = s[:s.index(MARK)].rstrip() + "\n"
    s = re.sub(r"\n-{80}\n*$", "\n", s)
out = [s.rstrip(), "", "-" * 80, "", MARK, "",
       "Each subsection is the builder's own record for that property: what is modelled, the theorems, "
       "hypotheses, what is trusted, tie facts, generator coverage, findings, mutation self-tests and the "
       "evaluation against independently seeded changes (kept under `seeded/`).", ""]
# findings register (from known_findings.json)
import json
kf = os.path.join(V, "known_findings.json")
if os.path.exists(kf):
    fs = json.load(open(kf)).get("findings", [])
    out += ["### 14.00 Findings register (from `known_findings.json`)", "",
            "Genuine defects of the pinned tree found while building the checks. `fixed` = repaired by the named "
            "`fix:` commit in `/repo` (the models describe the repaired code; the old witnesses run first in the "
            "property's corpus, so the check reports them again if they return). `known` = recorded, not repaired: "
            "the owning check prints `KNOWN-FINDING` for exactly that witness shape and exits 0; any other violation "
            "of the same property is still reported.", "",
            "| id | property | status | fix commit | what |", "|---|---|---|---|---|"]
    for f in fs:
        what = " ".join(str(f.get("what", "")).split()).replace("|", "\\|")
        out.append(f"| {f['id']} | {f['property']} | {f['status']} | {f.get('commit', '') or '—'} | {what} |")
    out.append("")
nd = os.path.join(V, "notes")
for fn in sorted(os.listdir(nd)) if os.path.isdir(nd) else []:
    if not re.match(r"C\d\d\.md$", fn):
        continue
    body = open(os.path.join(nd, fn)).read().strip()
    # demote headings by two levels so they nest under section 14
    body = re.sub(r"^(#+) ", lambda m: "#" * min(6, len(m.group(1)) + 2) + " ", body, flags=re.M)
    out += [f"### 14.{fn[1:3]} {fn[:-3]}", "", body, ""]
open(p, "w").write("\n".join(out) + "\n")
print("DESIGN.md section 14 regenerated from", len([f for f in os.listdir(nd) if re.match(r'C\d\d\.md$', f)]), "notes files")
