/-
Design-round feasibility prototype for C12 (rendezvous probe order). Core Lean only.
`w : α → Nat` is the weight (md5(hash ++ uuid suffix) read as a number); all theorems are for an
arbitrary weight function.
-/
namespace Rdv
variable {α : Type} [DecidableEq α]

/-- descending by weight -/
def geW (w : α → Nat) (a b : α) : Bool := decide (w b ≤ w a)

/-- What Go's unstable sort guarantees: some permutation, sorted by descending weight. -/
structure IsProbeOrder (w : α → Nat) (svcs out : List α) : Prop where
  perm : out.Perm svcs
  sorted : out.Pairwise (fun a b => w b ≤ w a)

def probeOrder (w : α → Nat) (svcs : List α) : List α := svcs.mergeSort (geW w)

theorem geW_trans (w : α → Nat) : ∀ a b c : α, geW w a b = true → geW w b c = true → geW w a c = true := by
  intro a b c; simp only [geW, decide_eq_true_eq]; omega

theorem geW_total (w : α → Nat) : ∀ a b : α, (geW w a b || geW w b a) = true := by
  intro a b; simp only [geW, Bool.or_eq_true, decide_eq_true_eq]; omega

theorem probeOrder_is (w : α → Nat) (svcs : List α) : IsProbeOrder w svcs (probeOrder w svcs) := by
  refine ⟨List.mergeSort_perm _ _, ?_⟩
  have := List.pairwise_mergeSort (geW_trans w) (geW_total w) svcs
  exact this.imp (by intro a b h; simpa [geW] using h)

/-- C12_determined: with pairwise distinct weights the order is unique, so it depends on nothing
but the service set and the weights. -/
theorem probeOrder_unique (w : α → Nat) (svcs o1 o2 : List α)
    (hinj : ∀ a ∈ svcs, ∀ b ∈ svcs, w a = w b → a = b)
    (h1 : IsProbeOrder w svcs o1) (h2 : IsProbeOrder w svcs o2) : o1 = o2 := by
  apply List.Perm.eq_of_pairwise (le := fun a b => w b ≤ w a) _ h1.sorted h2.sorted
    (h1.perm.trans h2.perm.symm)
  intro a b ha hb hab hba
  have ha' : a ∈ svcs := h1.perm.mem_iff.mp ha
  have hb' : b ∈ svcs := h2.perm.mem_iff.mp hb
  exact hinj a ha' b hb' (by omega)

/-- C12_stable_under_membership: removing a service deletes it from the order and changes
nothing else. -/
theorem probeOrder_erase (w : α → Nat) (svcs : List α) (s : α)
    (hnd : svcs.Nodup)
    (hinj : ∀ a ∈ svcs, ∀ b ∈ svcs, w a = w b → a = b) :
    probeOrder w (svcs.erase s) = (probeOrder w svcs).erase s := by
  apply probeOrder_unique w (svcs.erase s)
  · intro a ha b hb; exact hinj a (List.mem_of_mem_erase ha) b (List.mem_of_mem_erase hb)
  · exact probeOrder_is w _
  · refine ⟨?_, ?_⟩
    · exact (List.mergeSort_perm svcs (geW w)).erase s
    · exact (probeOrder_is w svcs).sorted.sublist (List.erase_sublist)

/-- C12_same_everywhere (write path vs read path): the write order over the writable subset is
the read order filtered to writable services. -/
theorem probeOrder_filter (w : α → Nat) (svcs : List α) (p : α → Bool)
    (hinj : ∀ a ∈ svcs, ∀ b ∈ svcs, w a = w b → a = b) :
    probeOrder w (svcs.filter p) = (probeOrder w svcs).filter p := by
  apply probeOrder_unique w (svcs.filter p)
  · intro a ha b hb; exact hinj a (List.mem_filter.mp ha).1 b (List.mem_filter.mp hb).1
  · exact probeOrder_is w _
  · refine ⟨?_, ?_⟩
    · exact (List.mergeSort_perm svcs (geW w)).filter p
    · exact (probeOrder_is w svcs).sorted.sublist List.filter_sublist

end Rdv
#print axioms Rdv.probeOrder_erase
#print axioms Rdv.probeOrder_filter
