/-
Design-round feasibility prototype for C11 (keepclient putReplicas). Core Lean only.
The three nested Go loops are modelled as a small-step machine; the only nondeterminism is the
per-(server, round) outcome `script` and which in-flight upload completes next (`pick`).
-/
namespace Put

abbrev Srv := Nat

inductive Outcome
  | ok (replicas : Nat) (body : Nat)
  | status (code : Nat)
  | connErr
deriving Repr, DecidableEq

def retryable : Outcome → Bool
  | .ok _ _ => false
  | .connErr => true
  | .status c => c == 408 || c == 429 || (decide (500 ≤ c) && c != 503)

structure Cfg where
  want : Nat
  rpt : Nat            -- replicasPerThread after defaulting (≥ 1 when want ≥ 1)
  retries : Nat
  script : Srv → Nat → Outcome   -- server, round ↦ answer

structure St where
  sv : List Srv
  next : Nat
  active : List Srv
  done : Nat
  todo : Int
  retrySv : List Srv
  retriesRemaining : Nat      -- value *after* the decrement at the top of the current round
  round : Nat
  locator : Option Nat
  okLog : List (Srv × Nat × Nat)   -- ghost: 200 answers processed (server, replicas, body)
  reqLog : List (Srv × Nat)        -- ghost: requests started (server, round)

inductive Res
  | ok (loc : Option Nat) (n : Nat)
  | insufficient (loc : Option Nat) (n : Nat)
deriving Repr

/-- the inner `for active*replicasPerThread < replicasTodo` loop: start uploads; `none` = the
"could not write sufficient replicas" return. Fuel = number of servers not yet started. -/
def startUploads (c : Cfg) : Nat → St → Option St
  | 0, s => some s
  | fuel+1, s =>
    if (s.active.length * c.rpt : Int) < s.todo then
      if h : s.next < s.sv.length then
        startUploads c fuel { s with active := s.active ++ [s.sv[s.next]], next := s.next + 1,
                                     reqLog := (s.sv[s.next], s.round) :: s.reqLog }
      else if s.active = [] ∧ s.retriesRemaining = 0 then none
      else some s
    else some s

def receive (c : Cfg) (s : St) (i : Nat) : St :=
  let srv := s.active.getD i 0
  let s1 := { s with active := s.active.eraseIdx i }
  let o := c.script srv s.round
  let s2 := match o with
    | .ok r b => { s1 with done := s1.done + r, todo := s1.todo - r, locator := some b,
                           okLog := (srv, r, b) :: s1.okLog }
    | _ => s1
  if retryable o then { s2 with retrySv := s2.retrySv ++ [srv] } else s2

/-- One iteration of the `for replicasTodo > 0` loop body, or the hand-over to the next round,
or the final return. `pick` chooses which in-flight upload answers next. -/
def step (c : Cfg) (s : St) (pick : Nat) : St ⊕ Res :=
  if s.todo > 0 then
    match startUploads c (s.sv.length + 1) s with
    | none => .inr (.insufficient s.locator s.done)
    | some s1 =>
      if s1.active ≠ [] then .inl (receive c s1 (pick % s1.active.length))
      else -- `break` out of the inner loop: next round or fall out of the outer loop
        if s1.retriesRemaining = 0 then .inr (.ok s1.locator s1.done)
        else .inl { s1 with sv := s1.retrySv, retrySv := [], next := 0,
                            retriesRemaining := s1.retriesRemaining - 1, round := s1.round + 1 }
  else -- replicasTodo ≤ 0: remaining outer iterations do nothing; return
    .inr (.ok s.locator s.done)

def run (c : Cfg) : Nat → St → List Nat → Option Res
  | 0, _, _ => none
  | fuel+1, s, picks =>
    match step c s (picks.headD 0) with
    | .inr r => some r
    | .inl s' => run c fuel s' picks.tail

def init (c : Cfg) (writable : List Srv) : St :=
  { sv := writable, next := 0, active := [], done := 0, todo := c.want, retrySv := [],
    retriesRemaining := c.retries, round := 0, locator := none, okLog := [], reqLog := [] }

/-! ### Invariant -/

def sumOk (l : List (Srv × Nat × Nat)) : Nat := (l.map (fun x => x.2.1)).sum

structure Inv (c : Cfg) (s : St) : Prop where
  bal : (s.done : Int) + s.todo = c.want
  acct : s.done = sumOk s.okLog
  loc : s.okLog ≠ [] → ∃ e ∈ s.okLog, s.locator = some e.2.2
  nextLe : s.next ≤ s.sv.length

theorem inv_init (c : Cfg) (w : List Srv) : Inv c (init c w) :=
  ⟨by simp [init], by simp [init, sumOk], by simp [init], by simp [init]⟩

theorem startUploads_inv (c : Cfg) (fuel : Nat) (s s' : St) (h : Inv c s)
    (hs : startUploads c fuel s = some s') : Inv c s' := by
  induction fuel generalizing s with
  | zero => simp [startUploads] at hs; exact hs ▸ h
  | succ n ih =>
    unfold startUploads at hs
    split at hs
    · split at hs
      · rename_i hn
        refine ih _ ?_ hs
        exact ⟨h.bal, h.acct, h.loc, by simp only; omega⟩
      · split at hs
        · cases hs
        · cases hs; exact h
    · cases hs; exact h

theorem receive_inv (c : Cfg) (s : St) (i : Nat) (h : Inv c s) : Inv c (receive c s i) := by
  unfold receive
  simp only
  cases ho : c.script (s.active.getD i 0) s.round with
  | ok r b =>
    simp only [retryable]
    refine ⟨?_, ?_, ?_, ?_⟩
    · have := h.bal; simp only [Bool.false_eq_true, if_false]; push_cast; omega
    · simp only [Bool.false_eq_true, if_false, sumOk, List.map_cons, List.sum_cons]
      have := h.acct; simp only [sumOk] at this; omega
    · intro _; simp only [Bool.false_eq_true, if_false]
      exact ⟨_, List.mem_cons_self, rfl⟩
    · simp only [Bool.false_eq_true, if_false]; exact h.nextLe
  | status code =>
    simp only
    split <;> exact ⟨h.bal, h.acct, h.loc, h.nextLe⟩
  | connErr =>
    simp only
    split <;> exact ⟨h.bal, h.acct, h.loc, h.nextLe⟩

theorem step_inv (c : Cfg) (s s' : St) (p : Nat) (h : Inv c s) (hs : step c s p = .inl s') :
    Inv c s' := by
  unfold step at hs
  split at hs
  · split at hs
    · cases hs
    · rename_i s1 hst
      have h1 := startUploads_inv c _ s s1 h hst
      split at hs
      · cases hs; exact receive_inv c s1 _ h1
      · split at hs
        · cases hs
        · cases hs; exact ⟨h1.bal, h1.acct, h1.loc, by simp⟩
  · cases hs

/-- The "fall out of the outer loop with nil error" exit is only reachable with todo ≤ 0:
on the last round `startUploads` returns the insufficient-replicas error instead. -/
theorem startUploads_last_round (c : Cfg) (fuel : Nat) (s s' : St)
    (hf : s.sv.length < s.next + fuel) (hle : s.next ≤ s.sv.length)
    (hs : startUploads c fuel s = some s') (hr : s.retriesRemaining = 0) (ha : s'.active = []) :
    s'.todo ≤ 0 := by
  induction fuel generalizing s with
  | zero => omega
  | succ n ih =>
    unfold startUploads at hs
    split at hs
    · rename_i hlt
      split at hs
      · rename_i hn
        exact ih _ (by simp only; omega) (by simp only; omega) hs hr
      · split at hs
        · cases hs
        · rename_i hcond
          cases hs
          exact absurd ⟨ha, hr⟩ hcond
    · rename_i hge
      cases hs
      simp only [ha, List.length_nil, Nat.zero_mul] at hge
      omega

theorem startUploads_fields (c : Cfg) (fuel : Nat) (s s' : St)
    (hs : startUploads c fuel s = some s') :
    s'.done = s.done ∧ s'.todo = s.todo ∧ s'.okLog = s.okLog ∧ s'.locator = s.locator ∧
    s'.retriesRemaining = s.retriesRemaining ∧ s'.sv = s.sv := by
  induction fuel generalizing s with
  | zero => simp [startUploads] at hs; subst hs; simp
  | succ n ih =>
    unfold startUploads at hs
    split at hs
    · split at hs
      · have := ih _ hs
        simpa using this
      · split at hs
        · cases hs
        · cases hs; simp
    · cases hs; simp

/-- C11_ok_sound + C11_err_reports_count, one step: whenever the machine returns, a nil error
comes with at least `want` confirmed replicas, an error with fewer, and the count is exactly the
sum of the replica counts of the 200 answers processed. -/
theorem step_result (c : Cfg) (s : St) (p : Nat) (h : Inv c s) (r : Res)
    (hs : step c s p = .inr r) :
    match r with
    | .ok _ n => (c.want : Int) ≤ n ∧ n = sumOk s.okLog
    | .insufficient _ n => (n : Int) < c.want ∧ n = sumOk s.okLog := by
  unfold step at hs
  split at hs
  · rename_i htodo
    split at hs
    · cases hs
      simp only
      exact ⟨by have := h.bal; omega, h.acct⟩
    · rename_i s1 hst
      have hf := startUploads_fields c _ s s1 hst
      split at hs
      · cases hs
      · rename_i hact
        split at hs
        · rename_i hrr
          cases hs
          simp only
          have hact' : s1.active = [] := by
            cases hl : s1.active with
            | nil => rfl
            | cons a t => simp [hl] at hact
          have hr0 : s.retriesRemaining = 0 := by rw [← hf.2.2.2.2.1]; exact hrr
          have hle := startUploads_last_round c (s.sv.length + 1) s s1 (by omega) h.nextLe hst hr0 hact'
          have hb := h.bal
          refine ⟨?_, ?_⟩
          · rw [hf.1]; rw [hf.2.1] at hle; omega
          · rw [hf.1]; exact h.acct
        · cases hs
  · rename_i htodo
    cases hs
    simp only
    exact ⟨by have := h.bal; omega, h.acct⟩

def Good (c : Cfg) : Res → Prop
  | .ok _ n => (c.want : Int) ≤ n
  | .insufficient _ n => (n : Int) < c.want

/-- Whole run, any fuel, any completion order, any outcome script: a nil error means at least
`want` replicas were confirmed by 200 answers; an error means fewer. -/
theorem run_result (c : Cfg) (fuel : Nat) (s : St) (picks : List Nat) (h : Inv c s) (r : Res)
    (hr : run c fuel s picks = some r) : Good c r := by
  induction fuel generalizing s picks with
  | zero => simp [run] at hr
  | succ n ih =>
    unfold run at hr
    split at hr
    · rename_i r' hst
      cases hr
      have := step_result c s _ h r hst
      cases r with
      | ok loc k => exact this.1
      | insufficient loc k => exact this.1
    · rename_i s' hst
      exact ih s' _ (step_inv c s s' _ h hst) hr

theorem put_sound (c : Cfg) (writable : List Srv) (fuel : Nat) (picks : List Nat) (r : Res)
    (hr : run c fuel (init c writable) picks = some r) : Good c r :=
  run_result c fuel _ picks (inv_init c writable) r hr

end Put
#print axioms Put.put_sound
