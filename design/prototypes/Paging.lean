/-
Design-round feasibility prototype (NOT part of the verification machinery yet; see
DESIGN.md §7 C06(a) and §10). Core Lean 4.33 only; checks with `lean Paging.lean` in ~1 s.

Model of services/keep-balance/collection.go EachCollection's paging loop and the proof that,
for every population, every page size, every multiplicity of timestamp ties and every
environment schedule that only moves modified_at forward, a scan that ends normally has handed
every collection that existed throughout the scan to the callback (theorem `paging_complete`),
plus the lemma that a `take limit` of the sorted filtered table is a legal page (`pageOf_take`).
Axioms used: propext, Classical.choice, Quot.sound.
-/
namespace Paging

structure Coll where
  uuid : Nat
  time : Nat
deriving DecidableEq, Repr

abbrev Key := Nat × Nat
def Coll.key (c : Coll) : Key := (c.time, c.uuid)
def klt (a b : Key) : Prop := a.1 < b.1 ∨ (a.1 = b.1 ∧ a.2 < b.2)

theorem klt_trans {a b c : Key} : klt a b → klt b c → klt a c := by
  unfold klt; omega

inductive Filt
  | all
  | ge (t u : Nat)
  | eq (t u : Nat)
  | gt (t : Nat)
deriving Repr

def Filt.ok : Filt → Coll → Prop
  | .all, _ => True
  | .ge t u, c => t ≤ c.time ∧ c.uuid ≠ u
  | .eq t u, c => c.time = t ∧ u < c.uuid
  | .gt t, c => t < c.time

structure St where
  last : Option Key
  ftime : Nat
  exact : Bool
  filt : Filt
  seen : List Nat

def init : St := { last := none, ftime := 0, exact := false, filt := .all, seen := [] }

def skip (last : Option Key) (c : Coll) : Bool :=
  match last with
  | some (t, u) => decide (t = c.time ∧ c.uuid ≤ u)
  | none => false

def processItem (s : St) (c : Coll) : St :=
  if skip s.last c then s else { s with seen := c.uuid :: s.seen, last := some c.key }

def processPage (s : St) (pg : List Coll) : St := pg.foldl processItem s

inductive Res
  | done (s : St)
  | err
  | cont (s : St)

def next (s : St) (pg : List Coll) : Res :=
  let s' := processPage s pg
  if pg.isEmpty && !s'.exact then .done s'
  else match s'.last with
    | none => .err
    | some (lt, lu) =>
      if lt = 0 then .err
      else if !pg.isEmpty && lt = s'.ftime then .cont { s' with exact := true, filt := .eq s'.ftime lu }
      else if s'.exact then .cont { s' with exact := false, filt := .gt s'.ftime }
      else .cont { s' with ftime := lt, filt := .ge lt lu }

/-- What the API server guarantees about a page: a sorted prefix of the filtered table. -/
structure PageOf (db : List Coll) (f : Filt) (limit : Nat) (pg : List Coll) : Prop where
  sub : ∀ c ∈ pg, c ∈ db ∧ f.ok c
  sorted : pg.Pairwise (fun a b => klt a.key b.key)
  rest : ∀ c ∈ db, f.ok c → c ∉ pg → pg ≠ [] ∧ ∀ p ∈ pg, klt p.key c.key

/-- Environment between two requests: persistent collections stay, timestamps only move forward. -/
structure Env (P : List Nat) (db db' : List Coll) : Prop where
  stay : ∀ u ∈ P, ∃ c' ∈ db', c'.uuid = u
  mono : ∀ c' ∈ db', c'.uuid ∈ P → ∃ c ∈ db, c.uuid = c'.uuid ∧ c.time ≤ c'.time

def ahead (last : Option Key) (c : Coll) : Prop :=
  match last with
  | none => True
  | some k => klt k c.key

/-- The inductive invariant. -/
structure Inv (P : List Nat) (db : List Coll) (s : St) : Prop where
  unseen : ∀ c ∈ db, c.uuid ∈ P → c.uuid ∉ s.seen → ahead s.last c
  lastSeen : ∀ t u, s.last = some (t, u) → u ∈ s.seen
  mode : match s.filt with
    | .all => s.last = none ∧ s.exact = false
    | .ge t u => s.last = some (t, u) ∧ s.ftime = t ∧ s.exact = false
    | .eq t u => s.last = some (t, u) ∧ s.ftime = t ∧ s.exact = true
    | .gt t => s.ftime = t ∧ s.exact = false ∧ (∀ c ∈ db, c.uuid ∈ P → c.uuid ∉ s.seen → t < c.time)

theorem inv_init (P : List Nat) (db : List Coll) : Inv P db init :=
  ⟨by intro c _ _ _; simp [init, ahead], by intro t u h; simp [init] at h, by simp [init]⟩

theorem inv_env {P db db' s} (h : Inv P db s) (e : Env P db db') : Inv P db' s := by
  refine ⟨?_, h.lastSeen, ?_⟩
  · intro c' hc' hP hns
    obtain ⟨c, hc, hu, ht⟩ := e.mono c' hc' hP
    have := h.unseen c hc (hu ▸ hP) (hu ▸ hns)
    revert this
    unfold ahead
    cases s.last with
    | none => simp
    | some k => simp only [Coll.key, klt]; intro hk; rw [hu] at hk; omega
  · have hm := h.mode
    revert hm
    cases hf : s.filt <;> simp only <;> intro hm
    · exact hm
    · exact hm
    · exact hm
    · refine ⟨hm.1, hm.2.1, ?_⟩
      intro c' hc' hP hns
      obtain ⟨c, hc, hu, ht⟩ := e.mono c' hc' hP
      have := hm.2.2 c hc (hu ▸ hP) (hu ▸ hns)
      omega


/-! ### Processing one page -/

theorem processItem_fields (s : St) (c : Coll) :
    (processItem s c).filt = s.filt ∧ (processItem s c).ftime = s.ftime ∧
    (processItem s c).exact = s.exact := by
  unfold processItem; split <;> simp

theorem skip_false_of_ahead {last : Option Key} {c : Coll} (h : ahead last c) (hl : last ≠ none ∨ True) :
    skip last c = false := by
  unfold skip
  cases last with
  | none => rfl
  | some k =>
    obtain ⟨t, u⟩ := k
    simp only [ahead, klt, Coll.key] at h
    simp only [decide_eq_false_iff_not, not_and, Nat.not_le]
    intro ht; omega

theorem fold_props (l : List Coll) (hs : l.Pairwise (fun a b => klt a.key b.key)) (s : St) :
    let s' := l.foldl processItem s
    (s'.filt = s.filt ∧ s'.ftime = s.ftime ∧ s'.exact = s.exact) ∧
    (∀ u ∈ s.seen, u ∈ s'.seen) ∧
    ((∀ t u, s.last = some (t, u) → u ∈ s.seen) → (∀ t u, s'.last = some (t, u) → u ∈ s'.seen)) ∧
    (s'.last = s.last ∨ ∃ p ∈ l, s'.last = some p.key) ∧
    (∀ p ∈ l, ahead s.last p → p.uuid ∈ s'.seen) := by
  induction l generalizing s with
  | nil => simp
  | cons h tl ih =>
    have hs' := List.pairwise_cons.mp hs
    have ih' := ih hs'.2 (processItem s h)
    simp only [List.foldl_cons]
    obtain ⟨f1, f2, f3, f4, f5⟩ := ih'
    have pf := processItem_fields s h
    refine ⟨⟨f1.1.trans pf.1, f1.2.1.trans pf.2.1, f1.2.2.trans pf.2.2⟩, ?_, ?_, ?_, ?_⟩
    · intro u hu
      apply f2
      unfold processItem; split
      · exact hu
      · simp [hu]
    · intro hls
      apply f3
      intro t u hl
      unfold processItem at hl ⊢
      split at hl
      · rename_i hsk; simp only [hsk, if_true]; exact hls t u hl
      · rename_i hsk
        simp only [hsk]
        simp only [Coll.key, Option.some.injEq, Prod.mk.injEq] at hl
        simp [← hl.2]
    · rcases f4 with h4 | ⟨p, hp, h4⟩
      · by_cases hsk : skip s.last h = true
        · left; rw [h4]; unfold processItem; simp [hsk]
        · right; refine ⟨h, by simp, ?_⟩; rw [h4]; unfold processItem; simp [hsk]
      · right; exact ⟨p, by simp [hp], h4⟩
    · intro p hp hap
      rcases List.mem_cons.mp hp with rfl | hptl
      · apply f2
        have : skip s.last p = false := skip_false_of_ahead hap (Or.inr trivial)
        unfold processItem; simp [this]
      · apply f5 p hptl
        by_cases hsk : skip s.last h = true
        · unfold processItem; simp only [hsk, if_true]; exact hap
        · unfold processItem; simp only [hsk]
          exact hs'.1 p hptl

/-! ### One request/response step preserves the invariant; termination implies completeness -/

theorem exact_iff_eq {P db s} (h : Inv P db s) :
    s.exact = true → ∃ t u, s.filt = .eq t u ∧ s.last = some (t, u) ∧ s.ftime = t := by
  have hm := h.mode
  revert hm
  cases hf : s.filt <;> simp only <;> intro hm he
  · simp [hm.2] at he
  · simp [hm.2.2] at he
  · exact ⟨_, _, rfl, hm.1, hm.2.1⟩
  · simp [hm.2.1] at he

/-- An unseen persistent collection matches the current filter, except in `=T` mode where it
may instead lie strictly after every collection the filter can return. -/
theorem ok_or_later {P db s} (h : Inv P db s) {c : Coll} (hc : c ∈ db) (hP : c.uuid ∈ P)
    (hns : c.uuid ∉ s.seen) :
    s.filt.ok c ∨ (s.exact = true ∧ ∀ p, s.filt.ok p → klt p.key c.key) := by
  have ha := h.unseen c hc hP hns
  have hm := h.mode
  revert hm
  cases hf : s.filt with
  | all => intro _; left; trivial
  | ge t u =>
    simp only; intro hm; left
    rw [hm.1] at ha
    simp only [ahead, klt, Coll.key] at ha
    refine ⟨by omega, ?_⟩
    intro hu
    exact hns (hu ▸ h.lastSeen t u hm.1)
  | eq t u =>
    simp only; intro hm
    rw [hm.1] at ha
    simp only [ahead, klt, Coll.key] at ha
    by_cases htc : c.time = t
    · left; exact ⟨htc, by omega⟩
    · right; refine ⟨hm.2.2, ?_⟩
      intro p hp
      simp only [Filt.ok] at hp
      simp only [klt, Coll.key]; omega
  | gt t =>
    simp only; intro hm; left
    exact hm.2.2 c hc hP hns

theorem after_page {P db s limit pg} (h : Inv P db s) (hp : PageOf db s.filt limit pg) :
    let s1 := processPage s pg
    (∀ c ∈ db, c.uuid ∈ P → c.uuid ∉ s1.seen → ahead s1.last c) ∧
    (∀ t u, s1.last = some (t, u) → u ∈ s1.seen) ∧
    (s1.filt = s.filt ∧ s1.ftime = s.ftime ∧ s1.exact = s.exact) ∧
    (s1.last = s.last ∨ ∃ p ∈ pg, s1.last = some p.key) := by
  obtain ⟨f1, f2, f3, f4, f5⟩ := fold_props pg hp.sorted s
  refine ⟨?_, f3 h.lastSeen, f1, f4⟩
  intro c hc hP hns1
  have hns : c.uuid ∉ s.seen := fun hin => hns1 (f2 _ hin)
  have ha := h.unseen c hc hP hns
  by_cases hcp : c ∈ pg
  · exact absurd (f5 c hcp ha) hns1
  · have hlater : ∀ p ∈ pg, klt p.key c.key := by
      rcases ok_or_later h hc hP hns with hok | ⟨_, hl⟩
      · exact (hp.rest c hc hok hcp).2
      · intro p hpp; exact hl p (hp.sub p hpp).2
    rcases f4 with h4 | ⟨p, hpp, h4⟩
    · show ahead (processPage s pg).last c
      unfold processPage; rw [h4]; exact ha
    · show ahead (processPage s pg).last c
      unfold processPage; rw [h4]; exact hlater p hpp

theorem step_cont {P db s limit pg s'} (h : Inv P db s) (hp : PageOf db s.filt limit pg)
    (hn : next s pg = .cont s') : Inv P db s' := by
  obtain ⟨a1, a2, a3, a4⟩ := after_page h hp
  unfold next at hn
  simp only at hn
  split at hn
  · cases hn
  · split at hn
    · cases hn
    · rename_i lt lu hl
      split at hn
      · cases hn
      · split at hn
        · -- switch to `= T` mode
          rename_i hcond
          cases hn
          refine ⟨a1, a2, ?_⟩
          simp only [Bool.and_eq_true, decide_eq_true_eq] at hcond
          simp only
          exact ⟨by rw [hl, hcond.2], trivial, trivial⟩
        · split at hn
          · -- leave `= T` mode: `> T`
            rename_i hne hex
            cases hn
            refine ⟨a1, a2, ?_⟩
            simp only
            refine ⟨trivial, trivial, ?_⟩
            have hex' : s.exact = true := by rw [← a3.2.2]; exact hex
            obtain ⟨t, u, hf, hlast, hft⟩ := exact_iff_eq h hex'
            -- the page must have been empty
            have hpg : pg = [] := by
              apply Classical.byContradiction
              intro hne'
              apply hne
              simp only [Bool.and_eq_true, Bool.not_eq_true', List.isEmpty_eq_false_iff,
                decide_eq_true_eq]
              refine ⟨hne', ?_⟩
              rcases a4 with h4 | ⟨p, hpp, h4⟩
              · rw [h4, hlast] at hl
                simp only [Option.some.injEq, Prod.mk.injEq] at hl
                rw [a3.2.1, hft]; exact hl.1.symm
              · rw [h4] at hl
                simp only [Coll.key, Option.some.injEq, Prod.mk.injEq] at hl
                have := (hp.sub p hpp).2
                rw [hf] at this
                simp only [Filt.ok] at this
                rw [a3.2.1, hft, ← hl.1]; exact this.1
            intro c hc hP hns
            subst hpg
            simp only [processPage, List.foldl_nil] at hns
            have ha := h.unseen c hc hP hns
            rw [hlast] at ha
            simp only [ahead, klt, Coll.key] at ha
            rw [a3.2.1, hft]
            apply Classical.byContradiction
            intro hle
            have hok : s.filt.ok c := by
              rw [hf]; simp only [Filt.ok]; omega
            exact (hp.rest c hc hok (by simp)).1 rfl
          · -- normal mode: `>= T`, skipping the last uuid
            rename_i hne hex
            cases hn
            refine ⟨a1, a2, ?_⟩
            simp only
            exact ⟨hl, trivial, by simpa using hex⟩

theorem step_done {P db s limit pg s'} (h : Inv P db s) (hp : PageOf db s.filt limit pg)
    (hpers : ∀ u ∈ P, ∃ c ∈ db, c.uuid = u)
    (hn : next s pg = .done s') : ∀ u ∈ P, u ∈ s'.seen := by
  unfold next at hn
  simp only at hn
  split at hn
  · rename_i hcond
    cases hn
    simp only [Bool.and_eq_true, List.isEmpty_iff, Bool.not_eq_true'] at hcond
    obtain ⟨hpg, hex⟩ := hcond
    subst hpg
    simp only [processPage, List.foldl_nil] at hex ⊢
    intro u hu
    obtain ⟨c, hc, hcu⟩ := hpers u hu
    apply Classical.byContradiction
    intro hns
    rcases ok_or_later h hc (hcu ▸ hu) (hcu ▸ hns) with hok | ⟨he, _⟩
    · exact (hp.rest c hc hok (by simp)).1 rfl
    · rw [hex] at he; cases he
  · split at hn
    · cases hn
    · split at hn
      · cases hn
      · split at hn
        · cases hn
        · split at hn <;> cases hn

/-! ### Whole scans: any number of requests, arbitrary environment in between -/

/-- `Reach P db s`: scanner state `s` together with table `db` is reachable from a fresh scan,
with arbitrary environment activity (respecting persistence of `P`) between requests and
arbitrary page sizes (any `limit`, possibly different per request). -/
inductive Reach (P : List Nat) : List Coll → St → Prop
  | start (db) : (∀ u ∈ P, ∃ c ∈ db, c.uuid = u) → Reach P db init
  | env {db db' s} : Reach P db s → Env P db db' → Reach P db' s
  | page {db s limit pg s'} : Reach P db s → PageOf db s.filt limit pg →
      next s pg = .cont s' → Reach P db s'

theorem reach_inv {P db s} (r : Reach P db s) :
    Inv P db s ∧ (∀ u ∈ P, ∃ c ∈ db, c.uuid = u) := by
  induction r with
  | start db h => exact ⟨inv_init P db, h⟩
  | env _ e ih => exact ⟨inv_env ih.1 e, e.stay⟩
  | page _ hp hn ih => exact ⟨step_cont ih.1 hp hn, ih.2⟩

/-- C06(a): if the scan ends normally, every collection that existed throughout the scan was
handed to the callback at least once — for every population, page size, tie multiplicity and
environment schedule. -/
theorem paging_complete {P db s limit pg s'} (r : Reach P db s)
    (hp : PageOf db s.filt limit pg) (hn : next s pg = .done s') :
    ∀ u ∈ P, u ∈ s'.seen :=
  step_done (reach_inv r).1 hp (reach_inv r).2 hn

/-! ### The executable page function satisfies `PageOf` -/

theorem pageOf_take (db l : List Coll) (f : Filt) (limit : Nat) (hl : 0 < limit)
    (hmem : ∀ c, c ∈ l ↔ (c ∈ db ∧ f.ok c))
    (hsorted : l.Pairwise (fun a b => klt a.key b.key)) :
    PageOf db f limit (l.take limit) := by
  refine ⟨?_, ?_, ?_⟩
  · intro c hc; exact (hmem c).1 (List.mem_of_mem_take hc)
  · exact hsorted.sublist (List.take_sublist _ _)
  · intro c hc hok hnot
    have hcl : c ∈ l := (hmem c).2 ⟨hc, hok⟩
    have hsplit : l = l.take limit ++ l.drop limit := (List.take_append_drop limit l).symm
    have hcd : c ∈ l.drop limit := by
      rw [hsplit] at hcl
      rcases List.mem_append.mp hcl with h | h
      · exact absurd h hnot
      · exact h
    constructor
    · intro hnil
      cases l with
      | nil => simp at hcl
      | cons a t =>
        cases limit with
        | zero => omega
        | succ n => simp at hnil
    · intro p hp
      rw [hsplit] at hsorted
      exact (List.pairwise_append.mp hsorted).2.2 p hp c hcd

end Paging

#print axioms Paging.paging_complete
#print axioms Paging.pageOf_take
